#!/bin/bash
# Re-runs every seeded change against the check of the property it breaks (quick tier).
# usage: run_seeded.sh [name-prefix]     prints one line per seeded change: CAUGHT / MISSED
cd /verif
for d in seeded/${1:-}*/; do
  NAME=$(basename $d)
  PROP=${NAME%%_*}
  WT=/tmp/reseed_$NAME
  git -C /repo worktree add -f $WT HEAD -q 2>/dev/null
  if ! git -C $WT apply /verif/$d/patch.diff 2>/dev/null; then echo "$NAME PATCH-DOES-NOT-APPLY"; git -C /repo worktree remove --force $WT; continue; fi
  VERIF_REPO=$WT VERIF_SEED=${VERIF_SEED:-1} timeout 1500 ./check $PROP --tier quick > /tmp/reseed_$NAME.log 2>&1; RC=$?
  if [ $RC -eq 1 ]; then echo "$NAME CAUGHT by $PROP"; else echo "$NAME MISSED by $PROP (rc=$RC)"; fi
  git -C /repo worktree remove --force $WT
  find /verif/replay -name "${PROP}_quick_*.json" -delete
done
