#!/bin/bash
# usage: seed_mutant.sh <property> <worktree> <name> [other properties to run...]
# Confirms a candidate mutant (diff in <worktree> + demo.py): demo passes without / fails with the change,
# the repository's stable tests still pass, then runs the checks against it and stores it under seeded/.
set -u
PROP=$1; WT=$2; NAME=$3; shift 3
OUT=/verif/seeded/$NAME
mkdir -p $OUT
git -C $WT diff > $OUT/patch.diff
cp $WT/demo.py $OUT/demo.py
cd $WT
timeout 600 /venv/bin/python demo.py > /tmp/demo_with.log 2>&1; WITH=$?
# NOTE: git stash is shared by all worktrees of a repository: never use it here
git apply -R $OUT/patch.diff
timeout 600 /venv/bin/python demo.py > /tmp/demo_without.log 2>&1; WITHOUT=$?
git apply $OUT/patch.diff
echo "demo exit: with=$WITH without=$WITHOUT"
cd /verif
BASE=$(timeout 1200 /venv/bin/python -m harness.baseline_check --repo $WT | head -1)
echo "tests: $BASE (151 = clean-worktree baseline: 2 version-dependent tests fail in any git worktree)"
RES=""
for P in $PROP "$@"; do
  VERIF_REPO=$WT timeout 1500 ./check $P --tier quick > /tmp/seed_$P.log 2>&1; RC=$?
  echo "check $P rc=$RC $(grep -c VIOLATION /tmp/seed_$P.log) violation lines"
  RES="$RES $P:$RC"
done
cat > $OUT/meta.json <<EOM
{"property": "$PROP", "worktree_demo_exit_with_change": $WITH, "worktree_demo_exit_without_change": $WITHOUT,
 "repo_tests_with_change": "$BASE", "checks_run_quick_exit_codes": "$RES"}
EOM
find /verif/replay -name "*.json" -newer $OUT/patch.diff -delete
git -C /repo status --short | head -3
