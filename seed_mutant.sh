#!/bin/bash
# usage: seed_mutant.sh <property> <worktree-or-patchfile> <name> [other properties to run...]
# Confirms a candidate mutant: applies its patch to a FRESH worktree of /repo's HEAD, checks that the
# demonstration passes without / fails with the change and that the repository's stable tests still pass,
# runs the named checks against it, stores everything under seeded/<name>/, removes the worktree.
# (git stash is shared by all worktrees of a repository: never used here.)
set -u
PROP=$1; SRC=$2; NAME=$3; shift 3
OUT=/verif/seeded/$NAME
mkdir -p $OUT
if [ -d "$SRC" ]; then
  git -C $SRC diff > $OUT/patch.diff
  cp $SRC/demo.py $OUT/demo.py
else
  cp $SRC $OUT/patch.diff
fi
WT=/tmp/seedwt_$NAME
git -C /repo worktree add -f $WT HEAD -q
cd $WT
cp $OUT/demo.py $WT/demo.py
sed -i "s#/tmp/mut_C[0-9]*#$WT#g" $WT/demo.py
timeout 900 /venv/bin/python demo.py > /tmp/demo_without.log 2>&1; WITHOUT=$?
if ! git apply $OUT/patch.diff; then echo "PATCH DOES NOT APPLY"; fi
timeout 900 /venv/bin/python demo.py > /tmp/demo_with.log 2>&1; WITH=$?
echo "demo exit: with=$WITH without=$WITHOUT"
cd /verif
BASE=$(timeout 1200 /venv/bin/python -m harness.baseline_check --repo $WT | head -1)
echo "tests: $BASE (151 = clean-worktree baseline: 2 version-dependent tests fail in any git worktree)"
RES=""
for P in $PROP "$@"; do
  VERIF_REPO=$WT timeout 1500 ./check $P --tier quick > /tmp/seed_$P.log 2>&1; RC=$?
  echo "check $P rc=$RC $(grep -c VIOLATION /tmp/seed_$P.log) violation lines"
  RES="$RES $P:$RC"
done
cat > $OUT/meta.json <<EOM
{"property": "$PROP", "demo_exit_with_change": $WITH, "demo_exit_without_change": $WITHOUT,
 "repo_tests_with_change": "$BASE", "clean_worktree_baseline": 151,
 "checks_run_quick_exit_codes": "$RES", "repo_head": "$(git -C /repo rev-parse --short HEAD)"}
EOM
find /verif/replay -name "*.json" -newer $OUT/patch.diff -delete
git -C /repo worktree remove --force $WT
