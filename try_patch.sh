#!/bin/bash
# usage: try_patch.sh <seeded-name> <prop> [seed...]  -- apply a seeded patch on a fresh worktree and run the quick check
NAME=$1; PROP=$2; shift 2
WT=/tmp/trywt_$NAME
git -C /repo worktree add -f $WT HEAD -q
git -C $WT apply /verif/seeded/$NAME/patch.diff || echo "PATCH DOES NOT APPLY"
for S in "${@:-1}"; do
  VERIF_REPO=$WT VERIF_SEED=$S timeout 1800 /verif/check $PROP --tier quick > /tmp/try_$NAME.$S.log 2>&1
  echo "$NAME $PROP seed=$S rc=$? $(grep -c VIOLATION /tmp/try_$NAME.$S.log) violation lines"
done
git -C /repo worktree remove --force $WT
find /verif/replay -name "*.json" -mmin -30 -newer /verif/seeded/$NAME/patch.diff -delete 2>/dev/null
