"""Check C09: compiling a series mini-language algorithm preserves its meaning (Dsl.tla).

The REAL series_computation is run over GF(p^2) elements (harness/gf.py), for
  (i)  the shipped algorithms `main` and `nonhermitian` parsed from
       /repo/pymablock/algorithms.py by the harness's own parser, under every
       combination of two_block_optimized / commuting_blocks settings that the
       library would choose or that is more conservative, 1..3 blocks, with and
       without selections (masks), 1..2 parameters;
  (ii) generated well-founded programs in the documented grammar.
Every element of every series and product -- outputs, deleted intermediates,
products -- is requested in a seeded random order and the resulting table is
validated by TLC against the defining equations of Dsl.tla.
"""

from __future__ import annotations

import copy
import importlib.util
import itertools
import multiprocessing as mp
import os
import tempfile
import time
import traceback

import numpy as np

from . import common, dsl_parse
from .common import MachineryError, order_seq
from .gf import GF

CFG = (common.SPEC / "Trace_Dsl.cfg").read_text()


def energies(rng, sizes, p, complex_ok):
    """Per-block energies in GF(p): distinct across blocks, repeats allowed inside a block."""
    pool = rng.sample(range(1, 60), 3 * len(sizes))
    out = []
    for b, s in enumerate(sizes):
        lv = pool[3 * b:3 * b + 3]
        out.append([(rng.choice(lv), rng.choice([0, 0, 5, 9]) if complex_ok else 0) for _ in range(s)])
    return out


def keep_mask(rng, Eb):
    """A selection inside one block: symmetric, diagonal and degenerate pairs kept."""
    s = len(Eb)
    k = np.ones((s, s), dtype=int)
    for a in range(s):
        for b in range(a + 1, s):
            if Eb[a] != Eb[b] and rng.random() < 0.6:
                k[a, b] = k[b, a] = 0
    return k


def build_inputs(rng, p, nb, sizes, k, N, hermitian, E, generic_zeroth=False):
    from pymablock.series import BlockSeries, zero

    ords = order_seq(k, N)
    table = {}
    for n in ords:
        for i in range(nb):
            for j in range(nb):
                if sum(n) == 0:
                    if i != j and generic_zeroth and not (hermitian and i > j) and rng.random() < 0.75:
                        # the mini-language does not require a block-diagonal zeroth order
                        table[(i, j, *n)] = GF.random(rng, sizes[i], sizes[j], p, hermitian=False)
                    elif i != j:
                        table[(i, j, *n)] = zero
                    else:
                        d = sizes[i]
                        re = np.diag([e[0] for e in E[i]])
                        im = np.diag([e[1] for e in E[i]])
                        table[(i, j, *n)] = GF(re, im, p)
                    continue
                if hermitian and i > j:
                    continue
                if rng.random() < 0.2:
                    table[(i, j, *n)] = zero
                else:
                    table[(i, j, *n)] = GF.random(rng, sizes[i], sizes[j], p, hermitian=hermitian and i == j)
    if hermitian:
        for n in ords:
            if sum(n) == 0 and not generic_zeroth:
                continue
            for i in range(nb):
                for j in range(i):
                    v = table[(j, i, *n)]
                    table[(i, j, *n)] = v if v is zero else v.adjoint()

    def ev(*index):
        return table[tuple(index)]

    return BlockSeries(eval=ev, shape=(nb, nb), n_infinite=k, name="H"), table


def build_numeric_inputs(rng, nb, sizes, k, N, name):
    """A pre-blocked input series over small Gaussian-integer numpy blocks (generic zeroth order)."""
    from pymablock.series import BlockSeries, zero

    table = {}
    for n in order_seq(k, N):
        for i in range(nb):
            for j in range(nb):
                if rng.random() < 0.2:
                    table[(i, j, *n)] = zero
                else:
                    re = np.array([[rng.randint(-2, 2) for _ in range(sizes[j])] for _ in range(sizes[i])], dtype=float)
                    im = np.array([[rng.randint(-1, 1) for _ in range(sizes[j])] for _ in range(sizes[i])], dtype=float)
                    table[(i, j, *n)] = re + 1j * im

    def ev(*index):
        return table[tuple(index)]

    return BlockSeries(eval=ev, shape=(nb, nb), n_infinite=k, name=name), table


def numeric_scope(nb, lo_block):
    from pymablock.series import BlockSeries, zero

    def deref(x, index):
        return x[index] if isinstance(x, BlockSeries) else x

    def dbl(x, index):
        x = deref(x, index)
        return x if x is zero else x + x

    def tri(x, index):
        x = deref(x, index)
        return x if x is zero else x + x + x

    scope = dict(dbl=dbl, tri=tri, ident=deref, offdiag=None)
    if lo_block is not None:
        flags = np.zeros((nb, nb), dtype=bool)
        flags[lo_block, lo_block] = True
        scope["use_linear_operator"] = flags
    return scope


def dense_cell(v, shape, p):
    """One numeric element (array, LinearOperator or sentinel) -> cell record of residues."""
    from pymablock.series import one, zero
    from scipy.sparse.linalg import LinearOperator

    if v is zero:
        return dict(tag="zero", v=[])
    if v is one:
        return dict(tag="one", v=[])
    if isinstance(v, LinearOperator):
        v = v @ np.eye(shape[1], dtype=complex)
    v = np.asarray(v)
    if v.shape != tuple(shape):
        raise ValueError(f"element of shape {v.shape}, expected {tuple(shape)}")
    return dict(tag="val", v=common.red_matrix(v, p))


def make_scope(p, E, keeps, flags):
    from pymablock.series import BlockSeries, zero

    def solve_sylvester(Y, index):
        if Y is zero:
            return zero
        i, j = index[0], index[1]
        re = np.zeros(Y.shape, dtype=np.int64)
        im = np.zeros(Y.shape, dtype=np.int64)
        for a in range(Y.shape[0]):
            for b in range(Y.shape[1]):
                dr = (E[i][a][0] - E[j][b][0]) % p
                di = (E[i][a][1] - E[j][b][1]) % p
                if dr == 0 and di == 0:
                    continue
                inv = pow((dr * dr + di * di) % p, -1, p)
                ir, ii = dr * inv % p, (-di) * inv % p
                yr, yi = int(Y.re[a, b]), int(Y.im[a, b])
                re[a, b] = (yr * ir - yi * ii) % p
                im[a, b] = (yr * ii + yi * ir) % p
        return GF(re, im, p)

    def diag(x, index):
        x = x[index] if isinstance(x, BlockSeries) else x
        kb = keeps.get(index[0])
        if kb is None or x is zero:
            return x
        return x.hadamard(kb)

    def offdiag(x, index):
        kb = keeps.get(index[0])
        if kb is None:
            return zero
        x = x[index] if isinstance(x, BlockSeries) else x
        if x is zero:
            return zero
        return x.hadamard(1 - kb)

    def deref(x, index):
        # f("series") hands the series itself, f(expression) the evaluated element
        return x[index] if isinstance(x, BlockSeries) else x

    def dbl(x, index):
        x = deref(x, index)
        return x if x is zero else x + x

    def tri(x, index):
        x = deref(x, index)
        return x if x is zero else x + x + x

    scope = dict(solve_sylvester=solve_sylvester, diag=diag, **flags, dbl=dbl, tri=tri, ident=deref)
    scope["offdiag"] = offdiag if keeps else None
    return scope


def run_session(sid, seed, spec):
    from pymablock import algorithms
    from pymablock.algorithm_parsing import series_computation
    from pymablock.series import one, zero

    rng = common.rng_for(seed, "C09", "session", sid)
    p = common.P1
    algo_name = spec["algo"]
    if algo_name in ("main", "nonhermitian"):
        algo = getattr(algorithms, algo_name)
        prog = dsl_parse.parse_algorithm(algo)
    else:
        algo, prog = spec["_func"], spec["_prog"]
    hermitian = spec["hermitian"]
    nb, sizes, k, N = spec["nb"], spec["sizes"], spec["k"], spec["N"]
    E = energies(rng, sizes, p, complex_ok=not hermitian)
    keeps = {}
    for b in spec["masked"]:
        keeps[b] = keep_mask(rng, E[b])
    flags = dict(spec["flags"])
    numeric = bool(spec.get("numeric"))
    if numeric:
        # numpy values, two inputs, optionally one diagonal block in linear-operator mode
        inputs, htabs = {}, {}
        for nm_ in spec["inputs"]:
            inputs[nm_], htabs[nm_] = build_numeric_inputs(rng, nb, sizes, k, N, nm_)
        scope = numeric_scope(nb, spec.get("lo_block"))
        series, lo_series = series_computation(inputs, algorithm=algo, scope=scope)
        inp_names = list(spec["inputs"])
    else:
        H, htab = build_inputs(rng, p, nb, sizes, k, N, hermitian, E, generic_zeroth=spec.get("generic_zeroth", False))
        inp = "H" if algo_name in ("main", "nonhermitian") else "A"
        H.name = inp
        scope = make_scope(p, E, keeps, flags)
        series, lo_series = series_computation({inp: H}, algorithm=algo, scope=scope)
        inp_names, htabs = [inp], {inp: htab}
    ords = order_seq(k, N)
    names = [s["name"] for s in prog["series"]] + [pr["name"] for pr in prog["products"]]
    cells = [(nm, i, j, n) for nm in names for i in range(nb) for j in range(nb) for n in ords]
    rng.shuffle(cells)
    values = {}
    lo_block = spec.get("lo_block") if numeric else None

    def fetch(nm, i, j, n):
        # a declared product at the block kept as linear operators exists only in its operator form (the
        # plain product would have to add dense arrays to operators): the engine itself reads it there
        if lo_block is not None and "@" in nm and i == j == lo_block:
            return lo_series[nm][(i, j, *n)]
        return series[nm][(i, j, *n)]

    for (nm, i, j, n) in cells:
        values[(nm, i, j, n)] = fetch(nm, i, j, n)
    # a second pass in another order: deleted terms are recomputed, cached ones re-read
    rng.shuffle(cells)
    for (nm, i, j, n) in cells[: len(cells) // 3]:
        v2 = fetch(nm, i, j, n)
        v1 = values[(nm, i, j, n)]
        same = (v1 is v2) or (isinstance(v1, GF) and isinstance(v2, GF) and v1 == v2)
        if not same and numeric:
            shp = (sizes[i], sizes[j])
            same = dense_cell(v1, shp, p) == dense_cell(v2, shp, p)
        if not same:
            values[(nm, i, j, n)] = ("CHANGED", v1, v2)

    def cell(v, shape):
        if isinstance(v, tuple) and v and v[0] == "CHANGED":
            # cannot satisfy any equation (residues are never negative), in the cell's own shape
            return dict(tag="val", v=[[[-1, -1] for _ in range(shape[1])] for _ in range(shape[0])])
        if numeric:
            return dense_cell(v, shape, p)
        if v is zero:
            return dict(tag="zero", v=[])
        if v is one:
            return dict(tag="one", v=[])
        res = v.residues()
        if len(res) != shape[0] or any(len(r_) != shape[1] for r_ in res):
            # an element of the WRONG SHAPE (e.g. the adjoint of another block): the marker keeps the trace
            # spec total -- the cell fails its own equation instead of crashing TLC's matrix operators
            shape_errors.append((len(res), len(res[0]) if res else 0, *shape))
            return dict(tag="val", v=[[[-1, -1] for _ in range(shape[1])] for _ in range(shape[0])])
        return dict(tag="val", v=res)

    shape_errors = []
    tab, lotab = {}, {}
    for nm in names + inp_names:
        lst, lol = [], []
        for i in range(nb):
            for j in range(nb):
                for n in ords:
                    shp = (sizes[i], sizes[j])
                    lst.append(cell(htabs[nm][(i, j, *n)] if nm in inp_names else values[(nm, i, j, n)], shp))
                    if numeric:
                        # the SECOND return value: the same series wrapped into linear operators
                        lol.append(dense_cell(lo_series[nm][(i, j, *n)], shp, p))
        tab[nm] = lst
        lotab[nm] = lol
    pos = {n: q + 1 for q, n in enumerate(ords)}
    splits = []
    for n in ords:
        sp = []
        for m in ords:
            r = tuple(a - b for a, b in zip(n, m))
            if min(r) >= 0 and r in pos:
                sp.append([pos[m], pos[r]])
        splits.append(sp)
    work = []
    for q, s in enumerate(prog["series"]):
        for i in range(nb):
            for j in range(nb):
                for n in ords:
                    work.append(dict(kind="series", q=q + 1, name=s["name"], i=i, j=j, pos=pos[n]))
    for q, pr in enumerate(prog["products"]):
        for i in range(nb):
            for j in range(nb):
                for n in ords:
                    work.append(dict(kind="product", q=q + 1, name=pr["name"], i=i, j=j, pos=pos[n]))
    if numeric:
        for nm_ in inp_names:
            for i in range(nb):
                for j in range(nb):
                    for n in ords:
                        work.append(dict(kind="input", q=0, name=nm_, i=i, j=j, pos=pos[n]))
    startmap = {s["name"]: (s["start"][6:-2] if s["start"].startswith("input:") else "") for s in prog["series"]}
    ses = dict(sid=sid, nb=nb, sizes=sizes, E=[[list(e) for e in Eb] for Eb in E],
               keep=[keeps[b].tolist() if b in keeps else [] for b in range(nb)],
               ords=[list(n) for n in ords], splits=splits, tab=tab, prog=prog, startmap=startmap, work=work,
               haslo=1 if numeric else 0, lotab=lotab)
    meta = dict(algo=algo_name, nb=nb, sizes=sizes, k=k, N=N, masked=spec["masked"], flags=spec["flags"],
                hermitian=hermitian, generic_zeroth=spec.get("generic_zeroth", False), cells=len(work),
                numeric=numeric, lo_block=spec.get("lo_block"), wrong_shape_cells=len(shape_errors))
    return ses, meta


def _job(args):
    sid, seed, spec = args
    try:
        return ("ok", sid) + run_session(sid, seed, spec)
    except Exception as e:  # noqa: BLE001
        return ("crash", sid, f"{type(e).__name__}: {e}\n{traceback.format_exc(limit=6)}",
                {k: v for k, v in spec.items() if not k.startswith("_")})


def specs_shipped(rng, n):
    out = []
    combos = []
    for algo, herm in (("main", True), ("nonhermitian", False)):
        for nb in (1, 2, 3):
            for k in (1, 2):
                combos.append((algo, herm, nb, k))
    for q in range(n):
        algo, herm, nb, k = combos[q % len(combos)]
        sizes = [rng.choice([1, 2, 2, 3]) for _ in range(nb)]
        N = 3 if k == 1 else 2
        masked = sorted(rng.sample(range(nb), rng.randint(0, nb))) if rng.random() < 0.6 else []
        if nb == 1 and not masked and rng.random() < 0.7:
            masked = [0]
        masked = [b for b in masked if sizes[b] >= 1]
        lib_two = nb == 2 and not masked
        lib_comm = [b not in masked for b in range(nb)]
        variant = q % 3
        if variant == 0:       # what block_diagonalize would choose
            flags = dict(two_block_optimized=lib_two, commuting_blocks=lib_comm)
        elif variant == 1:     # optimisations off: must denote the same thing
            flags = dict(two_block_optimized=False, commuting_blocks=[False] * nb)
        else:
            flags = dict(two_block_optimized=lib_two, commuting_blocks=[c and rng.random() < 0.5 for c in lib_comm])
        out.append(dict(algo=algo, hermitian=herm, nb=nb, sizes=sizes, k=k, N=N, masked=masked, flags=flags,
                        generic_zeroth=nb > 1 and q % 4 == 3))
    return out


def validate(sessions, workers=16, timeout=1500):
    res = common.run_tlc("Trace_Dsl", CFG, trace=sessions, workers=workers, timeout=timeout)
    done = {t[1]: t[2] for t in res.lines("DONE")}
    fails = {}
    for t in res.lines("FAIL"):
        fails.setdefault(t[1], []).append(tuple(t[2:6]))
    missing = {s["sid"] for s in sessions} - set(done)
    if missing or res.rc != 0:
        raise MachineryError(f"Trace_Dsl: no verdict for {sorted(missing)[:5]} rc={res.rc}\n" + res.out[-2500:])
    return res, done, fails


def run(pid, tier, seed, replay=None):
    t0 = time.time()
    quick = tier == "quick"
    rng = common.rng_for(seed, pid, "specs")
    specs = specs_shipped(rng, 36 if quick else 360)
    from . import dsl_gen

    specs += dsl_gen.generated_specs(rng, 24 if quick else 300)
    specs += dsl_gen.numeric_specs(rng, 16 if quick else 200)
    if replay is not None:
        specs = [replay["spec"]]
    jobs = [(q + 1, seed, sp) for q, sp in enumerate(specs)]
    # generated programs carry function objects: run those in-process, the rest in parallel
    par = [j for j in jobs if "_func" not in j[2]]
    ser = [j for j in jobs if "_func" in j[2]]
    with mp.get_context("fork").Pool(16) as pool:
        items = pool.map(_job, par, chunksize=1)
    items += [_job(j) for j in ser]
    sessions, metas, crashes = [], {}, []
    for it in items:
        if it[0] == "ok":
            sessions.append(it[2])
            metas[it[1]] = it[3]
        else:
            crashes.append(dict(spec=it[3], error=it[2][:600]))
    violations = [dict(kind="exception", **c) for c in crashes]
    stats = dict(states=0, transitions=0)
    for b in range(0, len(sessions), 32):
        chunk = sessions[b:b + 32]
        res, done, fails = validate(chunk)
        stats["states"] += res.distinct
        stats["transitions"] += res.generated
        for s in chunk:
            if fails.get(s["sid"]):
                violations.append(dict(kind="equation", meta=metas[s["sid"]],
                                       spec={k: v for k, v in specs[s["sid"] - 1].items() if not k.startswith("_")},
                                       failing_cells=sorted(fails[s["sid"]])[:12]))
    control = None
    if replay is None and sessions:
        bad = copy.deepcopy(sessions[0])
        bad["sid"] = 1
        nm = bad["prog"]["outputs"][0]
        c = next(c for c in bad["tab"][nm] if c["tag"] == "val")
        c["v"][0][0][0] = (c["v"][0][0][0] + 1) % common.P1
        _, _, cf = validate([bad], workers=4)
        if not cf.get(1):
            raise MachineryError("negative control accepted")
        control = dict(corrupted=f"one residue of {nm}", failing_cells=len(cf[1]))
    lines = []
    for i, v in enumerate(violations[:10]):
        path = common.write_replay(pid, f"{tier}_{seed}_{i}", dict(property=pid, **v))
        lines.append(f"VIOLATION property={pid} replay={path}")
    coverage = dict(
        states=max(stats["states"], 1), transitions=max(stats["transitions"], 1),
        traces_validated_against_impl=len(sessions),
        samples=[metas[s["sid"]] for s in sessions[:2]] + [metas[s["sid"]] for s in sessions[-1:]] or [dict(note="none")],
        evaluations=sum(m["cells"] for m in metas.values()),
        distinct_nontrivial=len({str(m) for m in metas.values()}),
        rule="session = (program, blocks, sizes, parameters, selections, flag setting); evaluations = cells whose "
             "defining equation TLC checked", programs=len(sessions),
        programs_by_kind={k: sum(1 for m in metas.values() if m["algo"] == k) for k in {m["algo"] for m in metas.values()}},
        negative_control=control, exhaustive=False)
    dsl_gen.cleanup()       # the generated program files (temp dirs) are not needed any more
    common.write_evidence(pid, tier, seed, coverage, time.time() - t0, len(violations),
                          ["the engine runs natively over GF(p^2): no abstraction step",
                           "uniqueness of the solution of the defining equations (well-founded programs) is the argument "
                           "that an equation-satisfying table is THE unoptimised interpretation",
                           "linear-operator (implicit) mode is not exercised here"])
    return lines, len(violations)
