"""setup_cmd: verify the toolchain is usable offline (nothing to build)."""
import subprocess
import sys


def main():
    import numpy, scipy, sympy  # noqa: F401, E401
    sys.path.insert(0, "/repo")
    import pymablock  # noqa: F401
    out = subprocess.run(["java", "-cp", "/opt/veriftools/tla/tla2tools.jar", "tlc2.TLC", "-h"],
                         capture_output=True, text=True)
    assert "TLC" in out.stdout + out.stderr
    print("selftest ok")


if __name__ == "__main__":
    main()
