"""Regenerates MANIFEST.json from the registry below (run: /venv/bin/python -m harness.manifest_gen)."""
import json
from pathlib import Path

VERIF = Path(__file__).resolve().parent.parent
BASELINE = ("cd /repo && /venv/bin/python -m pytest -ra -q -p no:cacheprovider --timeout=900 "
            "--continue-on-collection-errors -o addopts= --junitxml=/tmp/pymablock_verif_baseline.junit.xml")

CHECKS = {}
NOT_YET = {}


def check(pid, text, note, technique, design_ref):
    CHECKS[pid] = dict(
        property_id=pid,
        quick_cmd=f"./check {pid} --tier quick",
        thorough_cmd=f"./check {pid} --tier thorough",
        evidence_file=f"/verif/evidence/{pid}.json",
        replay_cmd_template=f"./check {pid} --replay {{path}}",
        engine="tla-trace-validation",
        level_claimed=dict(category="model_checking", text=text, design_ref=design_ref),
        level_note=note,
        technique=technique,
    )


HOM = ("Trusted: TLC/SANY 1.8.0, the Json community module, reduction mod p (p=46199, thorough also 43991) being a ring "
       "homomorphism on the values the algorithm can produce (a false identity survives with probability ~1/p per "
       "entry), sympy rational arithmetic for building inputs, exactness of IEEE arithmetic on the dyadic instances "
       "used for the float paths (values with >40-bit denominators are snapped within 1e-9). Bounds: d<=5 (6 thorough), "
       "<=4 blocks, <=3 parameters, total order <=5.")

check("C01",
      "TLC model-checks the reference solver of LeastAction.tla against the defining equations on every configuration "
      "within small bounds (Mode A), and validates traces of the real block_diagonalize (sympy exact, numpy real/complex "
      "and scipy-sparse dyadic; all fully_diagonalize forms) against Trace_LeastAction.tla: U-dagger*H*U is recomputed "
      "by TLC from the logged U, U-dagger and the harness's ground-truth H and compared with H_tilde on kept elements "
      "and with 0 on eliminated ones at every multi-order. A corrupted trace must be rejected in every run.",
      HOM, "TLA+ trace validation in GF(p^2) (TLC) + exhaustive TLC model check of the reference", "DESIGN.md §4 C01")
check("C02",
      "Same traces as C01; TLC evaluates U-dagger*U = U*U-dagger = 1 as Cauchy products, the adjoint pairing of the "
      "second and third returned series and Hermiticity of H_tilde at every multi-order and every block pair.",
      HOM, "TLA+ trace validation in GF(p^2) (TLC) + exhaustive TLC model check of the reference", "DESIGN.md §4 C02")
check("C03",
      "TLC takes the specification's own SolveOrder action (dense, unoptimised, explicit H_0 products) once per "
      "multi-order and requires the logged U, U-dagger, H_tilde to equal it exactly, plus the gauge clause on the logged "
      "U. Mode A shows the reference satisfies the defining equations on the whole small configuration space, and "
      "MC_Unique.tla decides the uniqueness claim itself: over GF(3^2), for every block structure / degeneracy pattern / "
      "fully_diagonalize form and EVERY candidate matrix, the homogeneous defining equations (unitarity, elimination, "
      "gauge) have only the zero solution iff the structure is well posed, and the gauge equation is never redundant.",
      HOM, "TLA+ reference solver as trace-validation oracle (TLC)", "DESIGN.md §4 C03")
check("C04",
      "TLC computes, by Faddeev-LeVerrier over truncated power series in GF(p^2), the characteristic polynomial of the "
      "ground-truth H(lambda) and of the logged H_tilde series and requires equality of every coefficient at every "
      "multi-order (which decides every truncation order at once); for isolated states the diagonal series must be a "
      "root of the characteristic polynomial (Rayleigh-Schroedinger by Hensel uniqueness). Never reads U.",
      HOM + " Spectrum clause is evaluated for d<=5.", "TLA+ characteristic-polynomial oracle in trace validation (TLC)",
      "DESIGN.md §4 C04")

check("C05",
      "Similarity.tla is the non-Hermitian problem with an unoptimised reference solver (explicit H_0 products, including "
      "the [H_0, U_S] term); MC_Similarity checks it against the defining equations on every configuration within bounds "
      "(all asymmetric masks, complex energies, non-Hermitian terms). Runs of block_diagonalize(hermitian=False) -- "
      "sympy exact, numpy/sparse dyadic, asymmetric masks, complex H_0 eigenvalues, explicit (R,L) biorthogonal bases "
      "from unimodular matrices -- are validated by TLC (Trace_Similarity) clause by clause: U_inv U = U U_inv = 1, "
      "U_inv H U = H_tilde on kept / 0 on eliminated elements, gauge, equality with the reference, and on Hermitian "
      "input equality with the Hermitian mode's outputs logged in the same session.",
      HOM + " KNOWN FINDING (known_findings.json): whenever a kept pair has different unperturbed energies the library's "
      "H_tilde/U are wrong from second order; in that class only the inverse clauses are enforced.",
      "TLA+ reference similarity solver as trace-validation oracle (TLC) + exhaustive TLC model check of the reference",
      "DESIGN.md §4 C05")

check("C06",
      "Pairs of real runs of one Hamiltonian h_0 = Q D Q^dagger + perturbations (dyadic unitary Q, spectrum with "
      "power-of-two eliminated gaps, 1-2 explicit blocks incl. degenerate explicit levels, real and complex, optional "
      "fully_diagonalize on explicit blocks): (a) the explicit twin with the complete eigenbasis, validated by TLC "
      "against the LeastAction reference; (b) the implicit run with only the explicit subspaces (direct solver with "
      "default options, with sparse perturbations, with explicit solver_options; KPM; and NON-HERMITIAN problems h_0 = R D L^dagger "
      "in integer biorthogonal bases with (R, L) pairs for the explicit blocks and hermitian=False). TLC (Relations.tla "
      "'basis' with the rectangular T = 1 (+) R_B, T~ = 1 (+) L_B^dagger) requires every block of the implicit run -- explicit blocks, explicit x implicit "
      "arrays and the densified implicit x implicit LinearOperators -- to equal T X T^dagger of the twin at every order.",
      "Trusted: TLC/SANY 1.8.0, Json module, reduction mod p; alpha_snap: direct-solver outputs within 1e-9 of a multiple "
      "of 2^-40, KPM outputs (atol 1e-8, orders<=2) within 400*atol*max(1,|value|) of a multiple of 2^-16 -- instances are built so that "
      "true values are dyadic with smaller denominators (non-Hermitian runs: 2^-28, their LU rounding is 1e-13..1e-12). "
      "The non-Hermitian twin is not validated against a reference here (that is C05, with its known finding); KPM "
      "convergence is not modelled; KPM does not support distinct left and right vectors.",
      "TLA+ relation (embedding of the explicit twin) checked by TLC on paired real runs + reference validation of the twin",
      "DESIGN.md §4 C06")
check("C07",
      "Trace_SecondQuant.tla (EXTENDS LeastAction, Fock): the input Hamiltonian goes to TLC as expression TREES (what "
      "the user typed); TLC builds its matrices on a truncated Fock space, derives the kept pattern from the selection "
      "rule in Fock terms (same block; tuple form: number-conserving elements between equal H_0 entries; operator "
      "masks: the power tuple t - s is not listed), runs the LeastAction reference solver on them and requires every "
      "operator returned by the real block_diagonalize (H_tilde, U, U-dagger as NumberOrderedForm data) to have the "
      "same matrix elements on all interior Fock states (vacuum included), with no coefficient pole reachable from an "
      "interior state. Model families: anharmonic boson, two-level x boson as a 2x2 operator matrix, spin operator x "
      "boson, fermion x boson, two fermions with hopping and pairing, ladder (charge basis), matrix-valued with full "
      "diagonalisation, operator-valued masks, boson x ladder, ladder in matrix entries, ladder x fermion, spin x two "
      "fermions, two bosons, three fermions, linear + cubic drive; random rational coefficients, complex couplings in "
      "every third session. Known finding negative_integer_resonance (known_findings.json): sessions whose H_0 has "
      "coinciding levels at negative integer boson occupations may fail and print KNOWN-FINDING (class computed from "
      "H_0 alone; three sessions in four are drawn outside the class; fixed witness session 0).",
      "Trusted: TLC/SANY 1.8.0, Json module, sympy evaluation of coefficients at integer occupations, the harness's "
      "model builders (sympy expression and tree from the same harness tree). Comparison is order x bandwidth away from "
      "the truncation edge; truncated dimension <= ~22, orders <= 2 (thorough 3); U-dagger U = 1 and U-dagger H U = "
      "H_tilde 'within the operator algebra' are decided through equality with the reference on the window, not "
      "symbolically.",
      "TLA+ Fock-space model + LeastAction reference solver as trace-validation oracle (TLC)", "DESIGN.md §4 C07")
check("C08",
      "Fock.tla gives boson / ladder / spin-1/2 / fermion (Jordan-Wigner) generators, number operators and functions of "
      "number operators their action on a truncated product Fock space over GF(p^2) (bosons in the unnormalised "
      "occupation basis, so all matrix elements are rational; the adjoint carries the weight prod n_i!), the meaning of "
      "a number-ordered term (creators ascending, f(N), annihilators descending) and the denotation of expression "
      "trees. Generated expressions are converted and combined by the REAL NumberOrderedForm class; every resulting "
      "object is logged as data (power tuples + coefficient tables over the basis states, poles flagged) and TLC "
      "(Trace_Fock) checks on all interior basis states: from_expr = denotation, as_expr round trip, adjoint, product, "
      "sum, difference, power, (xy)^dagger = y^dagger x^dagger, (xy)z = x(yz), x(y+z) = xy+xz.",
      "Trusted: TLC/SANY 1.8.0, Json module, sympy for evaluating coefficient expressions at integer occupations, the "
      "generator's push-down of daggers. Windows: bosons 0..7, ladders -4..4, <=3 modes, total ladder degree <= 6; "
      "identities are compared `margin` away from the truncation edges.",
      "TLA+ Fock-space model of the operator algebra as trace-validation oracle (TLC) for NumberOrderedForm results",
      "DESIGN.md §4 C08")
check("C09",
      "Dsl.tla holds the mini-language as data and its direct, unoptimised meaning as defining equations per cell (start "
      "pins, hermitian/antihermitian lower blocks, summed lines, diagonal/offdiagonal conditions with the keep/eliminate "
      "selections, `zero if flag else e` = e, products = left-associated Cauchy products, scope functions). The REAL "
      "series_computation is run natively over GF(p^2) elements on (i) main and nonhermitian parsed from "
      "pymablock/algorithms.py by the harness's own independent parser, 1-3 blocks, 1-2 parameters, with/without "
      "selections, under the flag settings the library would choose, all-off, and partially off; (ii) generated "
      "well-founded programs in the documented grammar (starts, markers, conditions, sums, /int incl. nested, .adj, "
      "scope functions on expressions and on series, 2-3 factor products, start = \"X_0\" with generic zeroth orders); "
      "(iii) generated programs over TWO inputs run on numpy values, with one diagonal block optionally in "
      "LINEAR-OPERATOR mode (operators densified), including the second return value (operator views). Every element of every series and product "
      "(outputs, deleted intermediates, products) is requested in a seeded random order, partly twice; TLC "
      "(Trace_Dsl) checks every cell against its defining equation -- a well-founded program has exactly one table that "
      "satisfies them all.",
      "Trusted: TLC/SANY 1.8.0, Json module, the ~90-line parser dsl_parse.py, gf.py. The engine runs in the same field "
      "TLC computes in (no abstraction); the numpy sessions are exact (small Gaussian integers, dyadic divisors). "
      "Linear-operator mode only with binary products; bounds: <=3 blocks of size <=3, total order <=3.",
      "TLA+ equational semantics of the DSL as trace-validation oracle (TLC) for the compiled engine run over GF(p^2)",
      "DESIGN.md §4 C09")

ENG = ("Trusted: TLC/SANY 1.8.0, the Json community module, the harness-side tracer (wraps the public BlockSeries.eval "
       "attribute and pop; cache hits are not observed), exactness of IEEE arithmetic on dyadic instances, reduction mod "
       "p=46199 for the value comparison. Bounds: 2-3 blocks, d<=5, total order<=3, schedules of <=6 requests (+ full "
       "re-read in C11), <=2 faults per session.")
check("C10",
      "MC_Engine: TLC explores every interleaving of a main-shaped recurrence (requests incl. slices, deletion at any "
      "time) for the protocol invariants. Session.tla: TLC enumerates all schedules of length 2 over a 24-letter "
      "alphabet and simulates longer ones (two computations sharing the input objects, slices, repeats, Hermitian and "
      "non-Hermitian mode); each is replayed into the real block_diagonalize on numpy/sparse dyadic values and the "
      "recorded event stream is validated by TLC against Engine.tla: every returned value must equal the undisturbed "
      "computation (itself validated against LeastAction.tla), values handed out earlier are re-read (no mutation), "
      "input objects are fingerprinted again. Further input kinds: opaque algebra elements, BlockSeries over the caller's "
      "own dictionary, sympy matrices, non-Hermitian problems with complex levels; operator-valued (second-quantised) "
      "computations are run in three request histories and TLC (Trace_Fock) decides that the elements denote the same "
      "operators.",
      ENG, "TLA+ engine model (TLC exhaustive) + TLC-generated schedules replayed + trace validation", "DESIGN.md §4 C10")
check("C11",
      "MC_Engine with faults of every class at every point of every interleaving shows the protocol leaves no in-flight "
      "marker and stays reusable. On the real code: for each TLC-generated schedule the clean run counts the K user "
      "callback invocations (Hamiltonian eval, custom solve_sylvester, and - for Hamiltonians given as a pre-blocked lazy "
      "series of opaque algebra elements - the product of two elements); a fault is injected at EVERY invocation 1..K "
      "for each of Exception/RuntimeError/KeyboardInterrupt, plus sampled double faults (MC_Engine_live: under weak "
      "fairness every request of the model comes back to the user, EveryRequestReturns); the schedule continues and "
      "everything is re-read; TLC validates each event stream against Engine.tla (Fault/Unwind/Raise actions, logged "
      "count of in-flight markers in the real caches = 0, exception class preserved, later values = undisturbed run).",
      ENG,
      "TLA+ engine model with Fault/Unwind (TLC exhaustive) + exhaustive crash-point injection + trace validation",
      "DESIGN.md §4 C11")
check("C12",
      "Trace_Engine clauses on the real event stream: a Hamiltonian term (the user's eval callback of a lazily defined "
      "BlockSeries with 1-3 parameters and terms at arbitrary orders) is evaluated during the definition only at order "
      "zero, during a request of order n only at orders m<=n componentwise, and at most once; two-run relation: with "
      "every term m not<= n altered (lazy and dict inputs) the returned value still equals the original's. Schedules "
      "come from Session.tla; MC_Engine checks InvInputsOnce/InvCausal on all interleavings.",
      ENG, "TLA+ engine model + trace validation with causality clauses (TLC)", "DESIGN.md §4 C12")

REL = ("Trusted: TLC/SANY 1.8.0, Json module, reduction mod p=46199, exact float arithmetic on dyadic instances (scales "
       "and shifts are powers of two there). Bounds: d<=5 (direct sums <=6), <=3 parameters, total order <=4.")
check("C13",
      "Relations.tla states, for each way the property relates two inputs (scaling a perturbation, merging parameters, "
      "permuting parameters, substituting lambda->lambda^2, adding a vanishing perturbation), the relation between the "
      "two output sets; pairs of real runs (Hermitian mode; sympy exact and numpy/sparse dyadic; inputs as order-tuple "
      "dicts, lists, symbolic monomial keys whose NAMES induce a permutation, sympy matrices with symbols, BlockSeries) "
      "are logged and TLC checks the relation for H_tilde, U and U-dagger at every multi-order. The parameter order of a "
      "run is read from the returned series' dimension_names.",
      REL, "TLA+ two-run relations evaluated by TLC on logged outputs of paired real runs", "DESIGN.md §4 C13")
check("C14",
      "Relations.tla 'same' / 'projection': one abstract Hamiltonian is run through pairs of presentations -- order-tuple "
      "dict vs list / symbolic monomial keys (names that do not sort in the given order) / sympy matrix with symbols / "
      "BlockSeries; dense vs sparse vs symbolic values; subspace_indices vs the corresponding eigenvector matrices; the "
      "Hamiltonian rotated into a dyadic unitary (Hermitian) or unimodular biorthogonal (non-Hermitian) eigenbasis vs the "
      "eigenbasis itself; a sympy matrix with analytic dependence (exp, 1/(1-x), sin, log(1+x)) vs its exact Taylor "
      "coefficients -- and TLC requires identical H_tilde, U, U-dagger at every multi-order; operator_to_BlockSeries is "
      "called directly and TLC requires its blocks to equal L_i^dagger A R_j computed in GF(p^2).",
      REL + " Nested block lists as a container are not exercised. A crash of one presentation (counted in the evidence) "
      "is not judged here.",
      "TLA+ two-run relations evaluated by TLC on logged outputs of paired real runs", "DESIGN.md §4 C14")
check("C15",
      "Relations.tla: block relabelling and basis-state permutation and rotation inside a degenerate level (all "
      "B = T A T^-1 with T computed by the harness from the construction), complex conjugation, shift of H_0 (only "
      "H_tilde at order zero moves), positive scaling, direct sum of decoupled problems. Pairs/triples of real runs over "
      "all fully_diagonalize forms; TLC checks H_tilde, U, U-dagger at every multi-order.",
      REL, "TLA+ two-run relations evaluated by TLC on logged outputs of paired real runs", "DESIGN.md §4 C15")
check("C16",
      "Sylvester.tla states each solver's equation over GF(p^2): the diagonal solver entrywise with 'zero where the "
      "energies coincide'; the direct solver for the right-implicit (rows: V_a (E_a - h0) Pc = Y_a Pc, V Pc = V) and "
      "left-implicit (columns, non-Hermitian) orientation with Pc = 1 - R L^dagger; direct_greens_function "
      "((E - h) x = Pk v, x = Pk x); the KPM solver as the right-implicit equation. Each solver is called directly on "
      "exact instances (dense/sparse incl. explicit stored zeros and scalar-zero blocks / sympy right-hand sides, "
      "complex energies, degenerate explicit groups, biorthogonal bases from unimodular matrices, dyadic unitaries) and "
      "TLC verifies the residual identity exactly.",
      "Trusted: TLC/SANY 1.8.0, Json module, reduction mod p=46199; alpha_snap for the rounding paths: sparse-LU outputs "
      "are snapped to denominators 2^12*840 within 1e-8, KPM outputs to 2^-10 within 200*atol (instances are built so the "
      "true solution has such denominators; a value that cannot be snapped is a violation). KPM convergence for "
      "arbitrary spectra is not modelled. The second-quantised solver is judged as an operator identity on a Fock window "
      "(Trace_Fock, kinds sylv / sylvdiag) with non-degenerate levels on the window.",
      "TLA+ residual equations checked by TLC on solver outputs (trace validation of direct solver calls)", "DESIGN.md §4 C16")
check("C17",
      "Projector.tla models the object graph of ComplementProjector (cached transpose/adjoint/conjugate companions as the "
      "code builds them) with the Klein four-group acting on P = 1 - R L^dagger; TLC checks for all words of length <=5 "
      "over {T,H,C}, Hermitian and biorthogonal starts, that links are involutive and every object denotes the right "
      "matrix over GF(p^2). All 81 words of length 4 (every prefix observed) are replayed on real objects for five "
      "instance kinds (orthonormal real/complex, biorthogonal real/complex via unimodular matrices, general L,R); "
      "Trace_Projector.tla (TLC) takes Projector!Apply per operation and compares 11 logged applications per step "
      "(left/right on vectors and matrices, rmatvec, inside P A P incl. its adjoint and right-multiplication, shape, "
      "dtype, idempotence when L^dagger R = 1) with the dense matrix of the model's object.",
      "Trusted: TLC/SANY 1.8.0, Json module, exact float arithmetic on dyadic / Gaussian-integer R, L, reduction mod p. "
      "d<=5, r<=3, words of length 4 (thorough: 4 repetitions with fresh instances).",
      "TLA+ object-graph model (TLC exhaustive) + trace validation against dense matrices in GF(p^2)", "DESIGN.md §4 C17")
check("C18",
      "CauchyDef.tla states the definition (sum over intermediate blocks and all splittings of the multi-order, zero = "
      "absent term, one = identity) for a chain of 2-4 factors; Cauchy.tla models the loop of product_by_order one "
      "iteration per action and TLC shows, for every cache/sentinel pattern of the two factors (hermitian on and off), "
      "that the lazy rule computes the definition and never evaluates a cell whose complement is known zero. On the real "
      "code: harness-built factor series (rectangular block grids, 1-3 parameters, sentinel patterns, Gaussian-integer "
      "blocks, Hermitian products for hermitian=True) are multiplied by cauchy_dot_product and every element is "
      "requested in random order; Trace_Cauchy.tla (TLC) requires every finished product cell, intermediate products "
      "included, and every returned value to equal ChainDef computed from the factor tables, the factor-request guard "
      "to hold in the model's cache state at every Begin, and the factor elements to be unmutated afterwards.",
      "Trusted: TLC/SANY 1.8.0, Json module, the tracer (cache hits unobserved), exact float arithmetic on small "
      "Gaussian integers, reduction mod p=46199. Known finding: a bare `one` term added to another term raises "
      "TypeError (listed in known_findings.json by structural class).",
      "TLA+ definition of the Cauchy product as trace-validation oracle + TLA+ model of product_by_order (TLC exhaustive)",
      "DESIGN.md §4 C18")
check("C19",
      "Indexing.tla transcribes numpy indexing for integers (negative on finite dimensions), lists and forward slices; "
      "MC_Indexing enumerates all ~23k expressions over the component menus for shape (2,3)+1 (thorough: also (2,)+2) and "
      "checks the transcription against itself. The same menus drive real BlockSeries objects in histories of 8 "
      "expressions; TLC (Trace_Indexing) computes with Indexing!Verdict which cells each expression covers and what it "
      "returns (scalar/shape/elements/mask) and validates the tracer's event stream against Engine.tla: Begin requires "
      "an absent cell (exactly once while cached), invalid expressions (open-ended or negative orders, out-of-range) "
      "must be refused with IndexError before anything is evaluated, self-referential definitions must end in "
      "RuntimeError via PendingHit with all markers removed (MC_EngineCyclic: exhaustively, for a self-referential "
      "program, every interleaving with faults - never a value, never a hang (liveness under weak fairness), no marker "
      "left, the well-founded outputs stay computable); finite-only indices give views with numpy's shape and the "
      "original's elements.",
      "Trusted: TLC/SANY 1.8.0, Json module, the harness tracer; the transcription covers at most one list component per "
      "expression and steps 1-2 (cross-checked against numpy's own indexing on 300 sampled expressions per shape).",
      "TLA+ transcription of numpy indexing + engine model; exhaustive expression enumeration (TLC) + trace validation",
      "DESIGN.md §4 C19")

check("C20",
      "Api.tla defines the configuration space (class of ill-posedness x position first/middle/last x value type x "
      "container x mode, 540 applicable configurations) and the outcome the property demands (eager classes: the call "
      "itself raises; shared energies: the first-order U block of the coupled offending pair raises, order zero is "
      "answered; non-Hermitian symbolic term at order m: H_tilde[i,i,m] raises, orders not >= m are answered; raised "
      "class in ValueError/TypeError/NotImplementedError; returned values finite). MC_Api (TLC) enumerates the space; "
      "every configuration is instantiated inside a random valid 3-block problem and the logged outcomes of the "
      "definition and of each request are judged by TLC (Trace_Api). Finiteness of well-posed runs is also a clause of "
      "C01/C05 (a non-finite value cannot be abstracted and is reported there).",
      "Trusted: TLC/SANY 1.8.0, Json module. Only requests that CERTAINLY need the ill-defined quantity are required to "
      "be rejected; everything the property leaves open is accepted either way. quick samples <=14 configurations per "
      "class, thorough runs all of them 4 times.",
      "TLA+ configuration space enumerated by TLC, expected-outcome table as trace-validation oracle", "DESIGN.md §4 C20")

ALL = [f"C{i:02d}" for i in range(1, 21)]


def main():
    na = [dict(property_id=p, reason=NOT_YET.get(p, "check not built yet in this round (see DESIGN.md §8 build order); no claim is made"))
          for p in ALL if p not in CHECKS]
    man = dict(
        version=1,
        setup_cmd="cd /verif && /venv/bin/python -m harness.selftest",
        hooks=dict(guard="PYMABLOCK_VERIF", enable="export PYMABLOCK_VERIF=1 (set by ./check; harness-side tracer only, no source hooks)",
                   baseline_off_cmd=BASELINE, source_commits=[], add_only=True),
        engines=[dict(name="tla-trace-validation", path="/verif/spec", serves_properties=sorted(CHECKS),
                      kind_free_text="explicit TLA+ specification checked with TLC; traces of the real code validated against it")],
        checks=[CHECKS[p] for p in sorted(CHECKS)],
        not_applicable=na,
        notes="See DESIGN.md. ./check <ID> --tier quick|thorough [--replay PATH]; exit 2 = machinery failure.",
    )
    (VERIF / "MANIFEST.json").write_text(json.dumps(man, indent=1))


if __name__ == "__main__":
    main()
