"""Regenerates MANIFEST.json from the registry below (run: /venv/bin/python -m harness.manifest_gen)."""
import json
from pathlib import Path

VERIF = Path(__file__).resolve().parent.parent
BASELINE = ("cd /repo && /venv/bin/python -m pytest -ra -q -p no:cacheprovider --timeout=900 "
            "--continue-on-collection-errors -o addopts= --junitxml=/tmp/pymablock_verif_baseline.junit.xml")

CHECKS = {}
NOT_YET = {}


def check(pid, text, note, technique, design_ref):
    CHECKS[pid] = dict(
        property_id=pid,
        quick_cmd=f"./check {pid} --tier quick",
        thorough_cmd=f"./check {pid} --tier thorough",
        evidence_file=f"/verif/evidence/{pid}.json",
        replay_cmd_template=f"./check {pid} --replay {{path}}",
        engine="tla-trace-validation",
        level_claimed=dict(category="model_checking", text=text, design_ref=design_ref),
        level_note=note,
        technique=technique,
    )


HOM = ("Trusted: TLC/SANY 1.8.0, the Json community module, reduction mod p (p=46199, thorough also 43991) being a ring "
       "homomorphism on the values the algorithm can produce (a false identity survives with probability ~1/p per "
       "entry), sympy rational arithmetic for building inputs, exactness of IEEE arithmetic on the dyadic instances "
       "used for the float paths (values with >40-bit denominators are snapped within 1e-9). Bounds: d<=5 (6 thorough), "
       "<=4 blocks, <=3 parameters, total order <=5.")

check("C01",
      "TLC model-checks the reference solver of LeastAction.tla against the defining equations on every configuration "
      "within small bounds (Mode A), and validates traces of the real block_diagonalize (sympy exact, numpy real/complex "
      "and scipy-sparse dyadic; all fully_diagonalize forms) against Trace_LeastAction.tla: U-dagger*H*U is recomputed "
      "by TLC from the logged U, U-dagger and the harness's ground-truth H and compared with H_tilde on kept elements "
      "and with 0 on eliminated ones at every multi-order. A corrupted trace must be rejected in every run.",
      HOM, "TLA+ trace validation in GF(p^2) (TLC) + exhaustive TLC model check of the reference", "DESIGN.md §4 C01")
check("C02",
      "Same traces as C01; TLC evaluates U-dagger*U = U*U-dagger = 1 as Cauchy products, the adjoint pairing of the "
      "second and third returned series and Hermiticity of H_tilde at every multi-order and every block pair.",
      HOM, "TLA+ trace validation in GF(p^2) (TLC) + exhaustive TLC model check of the reference", "DESIGN.md §4 C02")
check("C03",
      "TLC takes the specification's own SolveOrder action (dense, unoptimised, explicit H_0 products) once per "
      "multi-order and requires the logged U, U-dagger, H_tilde to equal it exactly, plus the gauge clause on the logged "
      "U. Mode A shows the reference satisfies the defining equations on the whole small configuration space.",
      HOM, "TLA+ reference solver as trace-validation oracle (TLC)", "DESIGN.md §4 C03")
check("C04",
      "TLC computes, by Faddeev-LeVerrier over truncated power series in GF(p^2), the characteristic polynomial of the "
      "ground-truth H(lambda) and of the logged H_tilde series and requires equality of every coefficient at every "
      "multi-order (which decides every truncation order at once); for isolated states the diagonal series must be a "
      "root of the characteristic polynomial (Rayleigh-Schroedinger by Hensel uniqueness). Never reads U.",
      HOM + " Spectrum clause is evaluated for d<=5.", "TLA+ characteristic-polynomial oracle in trace validation (TLC)",
      "DESIGN.md §4 C04")

ALL = [f"C{i:02d}" for i in range(1, 21)]


def main():
    na = [dict(property_id=p, reason=NOT_YET.get(p, "check not built yet in this round (see DESIGN.md §8 build order); no claim is made"))
          for p in ALL if p not in CHECKS]
    man = dict(
        version=1,
        setup_cmd="cd /verif && /venv/bin/python -m harness.selftest",
        hooks=dict(guard="PYMABLOCK_VERIF", enable="export PYMABLOCK_VERIF=1 (set by ./check; harness-side tracer only, no source hooks)",
                   baseline_off_cmd=BASELINE, source_commits=[], add_only=True),
        engines=[dict(name="tla-trace-validation", path="/verif/spec", serves_properties=sorted(CHECKS),
                      kind_free_text="explicit TLA+ specification checked with TLC; traces of the real code validated against it")],
        checks=[CHECKS[p] for p in sorted(CHECKS)],
        not_applicable=na,
        notes="See DESIGN.md. ./check <ID> --tier quick|thorough [--replay PATH]; exit 2 = machinery failure.",
    )
    (VERIF / "MANIFEST.json").write_text(json.dumps(man, indent=1))


if __name__ == "__main__":
    main()
