"""Check C16: each built-in solver returns a solution of its equation (Sylvester.tla).

The harness builds exact instances (dyadic / small-integer spectra with rational
eigenvectors), calls each solver directly, abstracts the output (exactly for
the diagonal solver; alpha_snap -- nearest rational with a bounded denominator
within the stated tolerance -- for sparse-LU and KPM paths) and TLC verifies the
residual identity exactly in GF(p^2).
"""

from __future__ import annotations

import copy
import time
import traceback
import warnings
from fractions import Fraction

import numpy as np

from . import common
from .common import MachineryError, NonFinite, red_frac

CFG = (common.SPEC / "Sylvester.cfg").read_text()
EMPTY = dict(kind="", Ei=[], Ej=[], E=[], Y=[], V=[], h0=[], R=[], L=[])

HAD2 = np.array([[1, 1], [1, -1]]) / 1.0
HAD4 = np.kron(HAD2, HAD2) / 2
HAD8 = np.kron(HAD4, HAD2)  # needs /sqrt2: not dyadic -> only 4x4 and direct sums are used
DFT4 = np.array([[1, 1, 1, 1], [1, 1j, -1, -1j], [1, -1, 1, -1], [1, -1j, -1, 1j]]) / 2


class NotSnappable(Exception):
    pass


def snap(x, den, tol):
    """alpha_snap for one real number."""
    x = float(x)
    if not np.isfinite(x):
        raise NonFinite(repr(x))
    q = Fraction(round(x * den), den)
    if abs(float(q) - x) > tol * max(1.0, abs(x)):
        raise NotSnappable(f"{x!r} is not within {tol} of a multiple of 1/{den}")
    return q


def red_snapped(a, p, den, tol):
    a = np.asarray(a)
    out = []
    for row in np.atleast_2d(a):
        r = []
        for v in row:
            v = complex(v)
            r.append([red_frac(snap(v.real, den, tol), p), red_frac(snap(v.imag, den, tol), p)])
        out.append(r)
    return out


def red_exact_any(a, p):
    import sympy
    from scipy import sparse

    if sparse.issparse(a):
        a = a.toarray()
    if isinstance(a, sympy.MatrixBase):
        return common.red_matrix(a, p)
    a = np.atleast_2d(np.asarray(a))
    return [[common.red_number(v, p) for v in row] for row in a]


def energies_res(e, p):
    return [common.red_number(v, p) for v in np.atleast_1d(e)]


# ----------------------------------------------------------------------------
def diag_calls(rng, p, ytype):
    """solve_sylvester_diagonal on dense / sparse / sympy right-hand sides."""
    import sympy
    from pymablock.block_diagonalization import solve_sylvester_diagonal
    from scipy import sparse

    nb = rng.choice([2, 3])
    sizes = [rng.choice([1, 2, 3]) for _ in range(nb)]
    cx = rng.random() < 0.4
    if ytype == "sympy":
        levels = [complex(a, b) for a in range(-3, 4) for b in ((-2, 0, 1) if cx else (0,))]
    elif cx:
        # Gaussian-integer levels whose pairwise differences have power-of-two norms
        s_ = rng.choice([1, 2, 4])
        levels = [s_ * z for z in (0, 1, 1j, 1 + 1j)]
    else:
        # three levels whose pairwise gaps are powers of two (float division is then exact)
        s_ = rng.choice([1, 2, 4])
        shift = rng.choice([0, -8, 4])
        levels = [shift + s_ * z for z in (0, 1, 2)]
    rng.shuffle(levels)
    if len(levels) < nb:
        return []
    # disjoint level groups per block, degeneracies inside a block allowed
    groups, pos = [], 0
    for b in range(nb):
        take = 1 if len(levels) - pos <= nb - b else rng.choice([1, 2])
        groups.append(levels[pos:pos + take])
        pos += take
    eigs_num = [[rng.choice(groups[b]) for _ in range(sizes[b])] for b in range(nb)]
    if not cx:
        eigs_num = [[v.real if isinstance(v, complex) else v for v in e] for e in eigs_num]
    if ytype == "sympy":
        eigs = tuple(np.array([sympy.Integer(int(complex(v).real)) + sympy.I * sympy.Integer(int(complex(v).imag))
                               for v in e], dtype=object) for e in eigs_num)
    else:
        eigs = tuple(np.array(e, dtype=complex if cx else float) for e in eigs_num)
    zero_blocks = [b for b in range(nb) if all(v == 0 for v in eigs_num[b])]
    if ytype == "sparse" and zero_blocks and rng.random() < 0.7:
        # a block whose unperturbed part vanishes is represented by a scalar zero
        z = zero_blocks[0]
        eigs = tuple(np.array(0) if b == z else e for b, e in enumerate(eigs))
    solve = solve_sylvester_diagonal(eigs, atol=1e-12)
    calls = []
    for _ in range(4):
        i, j = rng.randrange(nb), rng.randrange(nb)
        Y = np.array([[rng.randint(-3, 3) / rng.choice([1, 2, 4]) for _ in range(sizes[j])] for _ in range(sizes[i])])
        if cx:
            Y = Y + 1j * np.array([[rng.randint(-2, 2) for _ in range(sizes[j])] for _ in range(sizes[i])])
        if ytype == "sparse":
            Ys = sparse.csr_array(Y)
            if rng.random() < 0.7:
                # explicit stored zeros, as produced by elementwise masking of a sparse block
                mask = np.array([[rng.random() < 0.6 for _ in range(sizes[j])] for _ in range(sizes[i])])
                Ys = sparse.csr_array(Y).multiply(mask.astype(float)).tocsr()
                Y = Ys.toarray()
            arg = Ys
        elif ytype == "sympy":
            def sy(v):
                v = complex(v)
                return (sympy.Rational(str(Fraction(v.real))) + sympy.I * sympy.Rational(str(Fraction(v.imag))))

            arg = sympy.Matrix([[sy(v) for v in row] for row in Y])
        else:
            arg = Y.copy()
        with warnings.catch_warnings():
            warnings.simplefilter("ignore")
            V = solve(arg, (i, j, 1))
        rec = dict(EMPTY, kind="diag", Ei=energies_res(np.array(eigs_num[i]), p),
                   Ej=energies_res(np.array(eigs_num[j]), p), Y=red_exact_any(Y, p), V=red_exact_any(V, p),
                   what=f"diag/{ytype} index=({i},{j}) sizes={sizes} eigs={eigs_num}")
        calls.append(rec)
    return calls


def hermitian_h0(rng, cx):
    """h0 = Q D Q^dagger with a dyadic unitary Q and small integer spectrum."""
    Q = (DFT4 if cx else HAD4).copy()
    if rng.random() < 0.5:
        Q = np.kron(np.eye(2), Q)  # direct sum of two copies: d = 8
    d = Q.shape[0]
    perm = list(range(d))
    rng.shuffle(perm)
    Q = Q[:, perm]
    return Q, d


def direct_calls(rng, p, nonherm, conj_pair=False, interleaved=False):
    """conj_pair: a REAL, non-symmetric h_0 with a complex-conjugate pair of explicit levels alpha +- i
    (complex biorthogonal eigenvectors (1, -+i), (1, -+i)/2 of a rotation-like 2x2 part)."""
    from pymablock.block_diagonalization import solve_sylvester_direct
    from scipy import sparse

    cx = rng.random() < 0.5 and not conj_pair
    if nonherm:
        d = rng.choice([4, 5])
        M = np.eye(d, dtype=complex if cx else float)
        for _ in range(2 * d):
            i, j = rng.sample(range(d), 2)
            c = rng.choice([-1, 1, 2]) * (1j if (cx and rng.random() < 0.4) else 1)
            M[i, :] = M[i, :] + c * M[j, :]
        Minv = np.linalg.inv(M)
        Minv = np.round(Minv.real) + (1j * np.round(Minv.imag) if cx else 0)
        Rall, Lall = M, Minv.conj().T
    else:
        Q, d = hermitian_h0(rng, cx)
        Rall = Lall = Q
    nexp = rng.choice([2, 3]) if conj_pair else rng.choice([1, 2, 3])
    # spectrum: explicit levels (degeneracies allowed inside a block), implicit levels disjoint
    pool = [-4, -2, -1, 0, 1, 2, 3, 4]
    if conj_pair:
        # |alpha +- i - lambda|^2 = delta^2 + 1 in {2, 5, 10}: every denominator divides the snapping grid
        alpha = rng.choice([-1, 0, 1])
        pool = [alpha + dl for dl in (-3, -2, -1, 1, 2, 3)]
    rng.shuffle(pool)
    if interleaved:
        nexp = 3
    nb = rng.choice([1, 2]) if nexp > 1 and not interleaved else 1
    cut = sorted(rng.sample(range(1, nexp), nb - 1)) if nb > 1 else []
    blocks = [list(range(a, b)) for a, b in zip([0, *cut], [*cut, nexp])]
    lam = np.zeros(d, dtype=complex if (cx and nonherm) else float)
    used = 0
    for blk in blocks:
        lev = pool[used:used + 2]
        used += 2
        for s in blk:
            lam[s] = rng.choice(lev)
    if interleaved:
        # stratum: ONE explicit block whose levels are listed as (hi, lo, hi): not in ascending order and a
        # degenerate level interleaved with another one (the per-state Green's functions must follow the
        # states' own indices, whatever order the grouping of close energies returns)
        lo_, hi_ = sorted(pool[:2])
        lam[0], lam[1], lam[2] = hi_, lo_, hi_
        used = 2
    rest = pool[used:]
    for s in range(nexp, d):
        lam[s] = rng.choice(rest)
    if conj_pair:
        lam = lam.astype(complex)
        lam[0], lam[1] = alpha + 1j, alpha - 1j
        T = np.eye(d, dtype=complex)
        T[:2, :2] = [[1, 1], [-1j, 1j]]
        Ti = np.eye(d, dtype=complex)
        Ti[:2, :2] = [[0.5, 0.5j], [0.5, -0.5j]]
        Rall = Rall.astype(complex) @ T
        Lall = (Ti @ Lall.conj().T).conj().T
    h0 = Rall @ np.diag(lam) @ Lall.conj().T
    if conj_pair:
        if np.abs(h0.imag).max() != 0:
            raise MachineryError("conjugate-pair h_0 is not real")
        h0 = np.ascontiguousarray(h0.real)
    h0s = sparse.csr_array(h0)
    eigvecs = []
    for blk in blocks:
        if nonherm:
            eigvecs.append((np.ascontiguousarray(Rall[:, blk]), np.ascontiguousarray(Lall[:, blk])))
        else:
            eigvecs.append(np.ascontiguousarray(Rall[:, blk]))
    with warnings.catch_warnings():
        warnings.simplefilter("ignore")
        solve = solve_sylvester_direct(h0s, eigvecs, nonhermitian=nonherm)
    Rexp = Rall[:, :nexp]
    Lexp = Lall[:, :nexp]
    den, tol = 2 ** 12 * 840, 1e-8
    calls = []
    n_impl = len(blocks)
    for _ in range(3):
        b = rng.randrange(len(blocks))
        sz = len(blocks[b])
        E = lam[blocks[b]]
        if nonherm and rng.random() < 0.5:
            Y = np.array([[rng.randint(-2, 2) + (1j * rng.randint(-1, 1) if cx else 0) for _ in range(sz)]
                          for _ in range(d)])
            with warnings.catch_warnings():
                warnings.simplefilter("ignore")
                V = solve(Y.astype(complex if cx else float), (n_impl, b, 1))
            kind = "left"
        else:
            Y = np.array([[rng.randint(-2, 2) + (1j * rng.randint(-1, 1) if cx else 0) for _ in range(d)]
                          for _ in range(sz)])
            with warnings.catch_warnings():
                warnings.simplefilter("ignore")
                V = solve(Y.astype(complex if cx else float), (b, n_impl, 1))
            kind = "right"
        calls.append(dict(EMPTY, kind=kind, E=energies_res(E, p), Y=red_exact_any(Y, p),
                          V=red_snapped(V, p, den, tol), h0=red_snapped(h0, p, 2 ** 12, 1e-12),
                          R=red_exact_any(Rexp, p), L=red_exact_any(Lexp, p),
                          what=f"direct/{'nonherm' if nonherm else 'herm'}{'/conj_pair real h0' if conj_pair else ''} "
                               f"{kind} block={b} d={d} "
                               f"lam={[complex(v) for v in lam]} blocks={blocks}"))
    return calls


def green_calls(rng, p):
    from pymablock.linalg import direct_greens_function
    from scipy import sparse

    cx = rng.random() < 0.5
    Q, d = hermitian_h0(rng, cx)
    pool = [-4, -2, -1, 0, 1, 2, 3, 4]
    rng.shuffle(pool)
    lam = np.array([rng.choice(pool[:4]) for _ in range(d)], dtype=float)
    h = Q @ np.diag(lam) @ Q.conj().T
    hs = sparse.csr_array(h)
    calls = []
    for _ in range(2):
        if rng.random() < 0.6:
            E = float(rng.choice(list(lam)))
            ker = Q[:, [c for c in range(d) if lam[c] == E]]
        else:
            E = float(next(v for v in pool if v not in lam))
            ker = np.zeros((d, 0), dtype=Q.dtype)
        with warnings.catch_warnings():
            warnings.simplefilter("ignore")
            gf = direct_greens_function(hs, E, kernel_vectors=np.ascontiguousarray(ker) if ker.shape[1] else None)
        v = np.array([rng.randint(-3, 3) + (1j * rng.randint(-2, 2) if cx else 0) for _ in range(d)],
                     dtype=complex if cx else float)
        with warnings.catch_warnings():
            warnings.simplefilter("ignore")
            x = gf(v.copy())
        den, tol = 2 ** 12 * 840 * 2, 1e-8
        calls.append(dict(EMPTY, kind="green", E=energies_res(np.array([E]), p),
                          Y=red_exact_any(v.reshape(-1, 1), p), V=red_snapped(np.asarray(x).reshape(-1, 1), p, den, tol),
                          h0=red_snapped(h, p, 2 ** 12, 1e-12), R=red_exact_any(ker, p) if ker.shape[1] else [[] for _ in range(d)],
                          L=red_exact_any(ker, p) if ker.shape[1] else [[] for _ in range(d)],
                          what=f"green E={E} d={d} kernel_dim={ker.shape[1]} lam={list(lam)}"))
    return calls


def kpm_calls(rng, p):
    from pymablock.block_diagonalization import solve_sylvester_KPM
    from scipy import sparse

    Q = HAD4.copy()
    d = 4
    lam = np.array([0.0, 0.0, 2.0, 4.0]) if rng.random() < 0.5 else np.array([-1.0, 1.0, 3.0, 3.0])
    perm = list(range(d))
    rng.shuffle(perm)
    Q = Q[:, perm]
    h0 = Q @ np.diag(lam) @ Q.T
    nexp = rng.choice([1, 2])
    vecs = [np.ascontiguousarray(Q[:, :nexp])]
    if nexp == 2 and lam[0] != lam[1] and rng.random() < 0.5:
        vecs = [np.ascontiguousarray(Q[:, :1]), np.ascontiguousarray(Q[:, 1:2])]
    if any(lam[a] in lam[nexp:] for a in range(nexp)):
        return []
    atol = 1e-6
    caught = []
    opts = dict(atol=atol, max_moments=20000)
    # hybrid KPM: some exactly known eigenvectors of the implicit part are treated exactly
    naux = rng.choice([0, 1, 1, 2]) if d - nexp >= 2 else rng.choice([0, 1])
    naux = min(naux, d - nexp - 1) if rng.random() < 0.7 else min(naux, d - nexp)
    if naux:
        opts["auxiliary_vectors"] = np.ascontiguousarray(Q[:, nexp:nexp + naux])
    with warnings.catch_warnings(record=True) as w:
        warnings.simplefilter("always")
        solve = solve_sylvester_KPM(sparse.csr_array(h0), vecs, solver_options=opts)
        b = rng.randrange(len(vecs))
        sz = vecs[b].shape[1]
        Y = np.array([[float(rng.randint(-2, 2)) for _ in range(d)] for _ in range(sz)])
        V = solve(Y, (b, len(vecs)))
        caught = [str(x.message) for x in w if issubclass(x.category, RuntimeWarning) and "converge" in str(x.message)]
    if caught:
        return [dict(EMPTY, kind="skip", what="KPM reported non-convergence (allowed by the property)")]
    first = sum(v.shape[1] for v in vecs[:b])
    E = lam[first:first + sz]
    Rexp = Q[:, :nexp]
    return [dict(EMPTY, kind="right", E=energies_res(E, p), Y=red_exact_any(Y, p),
                 V=red_snapped(V, p, 2 ** 10, 200 * atol), h0=red_snapped(h0, p, 2 ** 12, 1e-12),
                 R=red_exact_any(Rexp, p), L=red_exact_any(Rexp, p),
                 what=f"kpm block={b} lam={list(lam)} nexp={nexp} naux={naux} atol={atol}")]


def second_quant_session(rng, sid, p):
    """solve_sylvester_2nd_quant judged as an operator identity on a Fock window (Trace_Fock)."""
    import sympy
    from pymablock.number_ordered_form import NumberOperator
    from pymablock.number_ordered_form import NumberOrderedForm as NOF
    from pymablock.second_quantization import solve_sylvester_2nd_quant
    from sympy.physics.quantum import Dagger

    from . import core_nof

    modes_all = [[("boson", "a")], [("boson", "a"), ("fermion", "c")], [("boson", "a"), ("spin", "s")],
                 [("fermion", "c"), ("fermion", "d")], [("ladder", "l")], [("boson", "a"), ("boson", "b")],
                 [("ladder", "l"), ("fermion", "c")], [("ladder", "l"), ("spin", "s")],
                 [("boson", "a"), ("ladder", "l")]]
    mk = modes_all[(sid - 1000) % len(modes_all)] if sid >= 1000 else rng.choice(modes_all)   # every combination in turn
    modes = []
    for kind, name in mk:
        lo, hi = (0, 6) if kind == "boson" else (-4, 4) if kind == "ladder" else (0, 1)
        modes.append(dict(kind=kind, name=name, lo=lo, hi=hi))
    ops = core_nof.sympy_ops(modes)
    states = core_nof.states_of(modes)
    strides = []
    for i in range(len(modes)):
        st = 1
        for mm in modes[i + 1:]:
            st *= mm["hi"] - mm["lo"] + 1
        strides.append(st)
    Ns = [NumberOperator(o) for o in ops]

    def h0(shift):
        e = sympy.Rational(shift)
        for q, n in enumerate(Ns):
            w = sympy.Rational(rng.randint(2, 5), rng.choice([1, 3, 7]))
            e = e + w * n
            if modes[q]["kind"] in ("boson", "ladder") and rng.random() < 0.5:
                e = e + sympy.Rational(1, rng.choice([3, 5, 7])) * n**2
        return e

    sizes = [rng.choice([1, 2]), rng.choice([1, 2])]
    equal_sectors = (sid - 1000) % 4 == 3 if sid >= 1000 else rng.random() < 0.25
    if equal_sectors:
        # two blocks whose unperturbed sectors are THE SAME operator expression: the equation for the
        # off-diagonal block is still well defined for a right-hand side without number-conserving part
        # (every term shifts an occupation, so the denominators are level spacings), and that right-hand
        # side is NOT Hermitian
        sizes = [1, 1]
        e_ = h0(rng.choice([0, 11]))
        eigs = ([e_], [e_])
    for _ in range(0 if equal_sectors else 50):
        eigs = tuple([h0(rng.choice([0, 0, 11, 13]) + 17 * b + 5 * a) for a in range(sizes[b])] for b in range(2))
        # the property is about non-degenerate levels: no two DIFFERENT (entry, occupation) pairs may
        # share an unperturbed energy on the window
        seen = {}
        clash = False
        for b in range(2):
            for a in range(sizes[b]):
                for st_ in states:
                    v = eigs[b][a].xreplace({n_: sympy.Integer(x) for n_, x in zip(Ns, st_)})
                    v = sympy.nsimplify(v)
                    if v in seen and seen[v] != (b, a, st_):
                        clash = True
                    seen[v] = (b, a, st_)
        if not clash:
            break
    else:
        if not equal_sectors:
            raise common.Regenerate("degenerate levels")
    solve = solve_sylvester_2nd_quant(eigs)

    def rand_op():
        terms = []
        for _ in range(rng.randint(1, 3)):
            t = sympy.Rational(rng.randint(-3, 3) or 1, rng.choice([1, 2]))
            for q, o in enumerate(ops):
                r = rng.random()
                if r < 0.35:
                    t = t * (o if rng.random() < 0.5 else Dagger(o))
                elif r < 0.5 and modes[q]["kind"] == "boson":
                    t = t * (o**2 if rng.random() < 0.5 else Dagger(o) ** 2)
                elif r < 0.6:
                    t = t * Ns[q]
            terms.append(t)
        # a density of a two-level mode times a shift of an unbounded mode (g n_f (m + m^dagger)): the
        # coefficient depends on the number operator of a mode the term does NOT shift
        two = [q for q, m_ in enumerate(modes) if m_["kind"] in ("fermion", "spin")]
        unb = [q for q, m_ in enumerate(modes) if m_["kind"] in ("boson", "ladder")]
        if two and unb and rng.random() < 0.7:
            o_ = ops[rng.choice(unb)]
            terms.append(sympy.Rational(rng.randint(1, 3), rng.choice([1, 2])) * Ns[rng.choice(two)]
                         * (o_ if rng.random() < 0.5 else Dagger(o_)))
        return sum(terms, sympy.S.Zero)

    i, j = rng.choice([(0, 1), (1, 0), (0, 0), (1, 1)])
    Y = sympy.Matrix([[rand_op() for _ in range(sizes[j])] for _ in range(sizes[i])])
    if equal_sectors:
        i, j = rng.choice([(0, 1), (1, 0)])
        o = ops[0]
        c1 = sympy.Rational(rng.randint(1, 3), rng.choice([1, 2]))
        c2 = sympy.Rational(rng.randint(-3, 3) or 2, rng.choice([1, 2]))
        Y = sympy.Matrix([[c1 * o + c2 * Ns[0] * Dagger(o)]])
    if i == j:
        Y = Y + Dagger(Y)   # the library only asks for Hermitian right-hand sides on diagonal blocks
    Yn = Y.applyfunc(lambda x: NOF.from_expr(x, operators=ops))
    V = solve(Yn, (i, j, 1))
    objs, checks = [], []

    def add(x):
        if not isinstance(x, NOF) or list(x.operators) != list(ops):
            x = NOF.from_expr(x.as_expr() if isinstance(x, NOF) else sympy.sympify(x), operators=ops)
        objs.append(core_nof.nof_record(x, ops, modes, states, p))
        return len(objs)

    for a in range(sizes[i]):
        for b in range(sizes[j]):
            kx, ky, kz, kw = add(eigs[i][a]), add(eigs[j][b]), add(V[a, b]), add(Yn[a, b])
            kind = "sylvdiag" if (i == j and a == b) else "sylv"
            checks.append(dict(kind=kind, x=kx, y=ky, z=kz, w=kw, tree=0, k=0, margin=3))
    ses = dict(sid=sid, modes=[dict(kind=m["kind"], lo=m["lo"], hi=m["hi"]) for m in modes],
               states=[list(s_) for s_ in states], strides=strides, objs=objs, trees=[], checks=checks)
    meta = dict(gen="second_quant", modes=mk, index=(i, j), eigs=str(eigs), Y=str(Y), equal_sectors=equal_sectors)
    return ses, meta


GENERATORS = {
    "diag_dense": lambda rng, p: diag_calls(rng, p, "dense"),
    "diag_sparse": lambda rng, p: diag_calls(rng, p, "sparse"),
    "diag_sympy": lambda rng, p: diag_calls(rng, p, "sympy"),
    "direct_herm": lambda rng, p: direct_calls(rng, p, False),
    "direct_nonherm": lambda rng, p: direct_calls(rng, p, True),
    "direct_conj_pair": lambda rng, p: direct_calls(rng, p, True, conj_pair=True),
    "direct_interleaved": lambda rng, p: direct_calls(rng, p, rng.random() < 0.5, interleaved=True),
    "green": green_calls,
    "kpm": kpm_calls,
}


def validate(sessions, workers=16, timeout=600):
    res = common.run_tlc("Sylvester", CFG, trace=sessions, workers=workers, timeout=timeout)
    done = {t[1]: t[2] for t in res.lines("DONE")}
    fails = {}
    for t in res.lines("FAIL"):
        fails.setdefault(t[1], []).append((t[2], t[3]))
    missing = {s["sid"] for s in sessions} - set(done)
    if missing or res.rc != 0:
        raise MachineryError(f"Sylvester: no verdict for {sorted(missing)[:5]} rc={res.rc}\n" + res.out[-2500:])
    return res, done, fails


def run(pid, tier, seed, replay=None):
    t0 = time.time()
    p = common.P1
    quick = tier == "quick"
    per_kind = 14 if quick else 150
    sessions, metas, violations = [], {}, []
    counts = {}
    sid = 0
    plan = [(k, n) for k in GENERATORS for n in range(per_kind)]
    if replay is not None:
        plan = [(replay["gen"], replay["n"])]
    for kind, n in plan:
        rng = common.rng_for(seed, pid, kind, n)
        try:
            calls = GENERATORS[kind](rng, p)
        except (NonFinite, NotSnappable) as e:
            violations.append(dict(kind="output", gen=kind, n=n, error=f"{type(e).__name__}: {e}"))
            continue
        except common.Regenerate:
            continue
        except Exception as e:  # noqa: BLE001
            violations.append(dict(kind="exception", gen=kind, n=n, error=f"{type(e).__name__}: {e}",
                                   where=traceback.format_exc(limit=4)[-500:]))
            continue
        calls = [c for c in calls if c["kind"] != "skip"]
        if not calls:
            continue
        sid += 1
        sessions.append(dict(sid=sid, calls=calls))
        metas[sid] = dict(gen=kind, n=n, calls=[c.get("what", "") for c in calls])
        counts[kind] = counts.get(kind, 0) + len(calls)
    stats = dict(states=0, transitions=0)
    if sessions:
        res, done, fails = validate(sessions)
        stats["states"], stats["transitions"] = res.distinct, res.generated
        for s in sessions:
            if fails.get(s["sid"]):
                m = metas[s["sid"]]
                violations.append(dict(kind="equation", gen=m["gen"], n=m["n"], clauses=fails[s["sid"]],
                                       calls=[m["calls"][ln - 1] for _, ln in fails[s["sid"]]]))
    # ---- the second-quantised solver, judged in the Fock model (Trace_Fock) -------------
    from . import core_nof

    fock_sessions, fock_meta = [], {}
    for n in range(per_kind if replay is None else 0):
        rng = common.rng_for(seed, pid, "second_quant", n)
        try:
            fs, fm = second_quant_session(rng, 1000 + n, p)
            fock_sessions.append(fs)
            fock_meta[1000 + n] = fm
            counts["second_quant"] = counts.get("second_quant", 0) + len(fs["checks"])
        except common.Regenerate:
            continue
        except Exception as e:  # noqa: BLE001
            violations.append(dict(kind="exception", gen="second_quant", n=n, error=f"{type(e).__name__}: {e}",
                                   where=traceback.format_exc(limit=4)[-500:]))
    if fock_sessions:
        fres, fdone, ffails = core_nof.validate(fock_sessions)
        stats["states"] += fres.distinct
        stats["transitions"] += fres.generated
        for fs in fock_sessions:
            if ffails.get(fs["sid"]):
                violations.append(dict(kind="operator_identity", gen="second_quant", n=fs["sid"] - 1000,
                                       clauses=ffails[fs["sid"]], meta=fock_meta[fs["sid"]]))
    control = None
    if replay is None and sessions:
        bad = copy.deepcopy(next(s for s in sessions if s["calls"][0]["kind"] == "diag"))
        bad["sid"] = 1
        bad["calls"][0]["V"][0][0][0] = (bad["calls"][0]["V"][0][0][0] + 1) % p
        _, _, cf = validate([bad], workers=2)
        if not cf.get(1):
            raise MachineryError("negative control accepted")
        control = dict(corrupted="V[0][0]+1 of a diagonal-solver call", rejected_by=sorted({c for c, _ in cf[1]}))
    lines, seen = [], set()
    for v in violations:
        key = (v["kind"], v["gen"], v.get("error", "")[:50])
        if key in seen or len(lines) >= 10:
            continue
        seen.add(key)
        path = common.write_replay(pid, f"{tier}_{seed}_{len(lines)}", dict(property=pid, **v))
        lines.append(f"VIOLATION property={pid} replay={path}")
    ncalls = sum(len(s["calls"]) for s in sessions)
    coverage = dict(
        states=max(stats["states"], 1), transitions=max(stats["transitions"], 1),
        traces_validated_against_impl=len(sessions) + len(fock_sessions),
        samples=[metas[s["sid"]] for s in sessions[:1]] + [metas[s["sid"]] for s in sessions[-1:]] or [dict(note="none")],
        evaluations=ncalls, distinct_nontrivial=len({w for m in metas.values() for w in m["calls"]}),
        rule="one evaluation = one solver call (generator kind, instance, right-hand side, block index); distinct by the "
             "full description of spectrum / blocks / index",
        calls_per_solver=counts, negative_control=control, exhaustive=False)
    common.write_evidence(pid, tier, seed, coverage, time.time() - t0, len(violations),
                          ["diagonal solver judged exactly; sparse-LU outputs snapped to denominators 2^12*840 within 1e-8, "
                           "KPM outputs to 2^-10 within 200*atol (instances are built so the true solution has such "
                           "denominators)", "the second-quantised solver is judged in C07/C08's Fock model, not here"])
    return lines, len(violations)
