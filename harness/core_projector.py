"""Check C17: ComplementProjector == dense 1 - R L^dagger under every operator operation.

  Mode A  MC_Projector: the object graph of cached transpose/adjoint/conjugate
          companions, all words of length <= 5 over {T, H, C}, Hermitian and
          biorthogonal starts: links involutive, denotation = group action.
  Mode B  all words of length 4 (every prefix is observed) are replayed on real
          ComplementProjector objects: dyadic/Gaussian-integer R, L (orthonormal,
          biorthogonal via unimodular matrices, and general), real and complex.
  Mode C  Trace_Projector: TLC takes Projector!Apply per logged operation and
          compares every logged application (left/right, vectors/matrices,
          inside P A P, its adjoint and right-multiplication) with the dense
          matrix of the model's current object.
"""

from __future__ import annotations

import itertools
import time
import traceback
import warnings

import numpy as np

from . import common
from .common import MachineryError

CFG = (common.SPEC / "Trace_Projector.cfg").read_text()
MC_CFG = (common.SPEC / "MC_Projector.cfg").read_text()

DFT4 = np.array([[1, 1, 1, 1], [1, 1j, -1, -1j], [1, -1, 1, -1], [1, -1j, -1, 1j]]) / 2
HAD4 = np.array([[1, 1, 1, 1], [1, -1, 1, -1], [1, 1, -1, -1], [1, -1, -1, 1]]) / 2.0


def unimodular(rng, d, complex_):
    m = np.eye(d, dtype=complex if complex_ else float)
    for _ in range(2 * d):
        i, j = rng.sample(range(d), 2)
        c = rng.choice([-2, -1, 1, 2])
        if complex_ and rng.random() < 0.5:
            c = c * 1j
        m[i, :] = m[i, :] + c * m[j, :]
    return m


def gen_instance(rng, kind):
    d = 4
    r = rng.choice([1, 2, 3])
    if kind == "herm_real":
        cols = rng.sample(range(4), r)
        R = HAD4[:, cols].copy()
        return dict(R=R, L=R, herm=1, idem=1)
    if kind == "herm_complex":
        cols = rng.sample(range(4), r)
        R = DFT4[:, cols].copy()
        return dict(R=R, L=R, herm=1, idem=1)
    if kind in ("bi_real", "bi_complex"):
        cx = kind == "bi_complex"
        d = rng.choice([3, 4, 5])
        r = rng.choice([1, 2])
        M = unimodular(rng, d, cx)
        Minv = np.round(np.linalg.inv(M).real) + (1j * np.round(np.linalg.inv(M).imag) if cx else 0)
        assert np.allclose(Minv @ M, np.eye(d))
        R = M[:, :r].copy()
        L = Minv.conj().T[:, :r].copy()
        return dict(R=R, L=L, herm=0, idem=1)
    if kind in ("bi_real_R_complex_L", "bi_complex_R_real_L"):
        # MIXED dtypes: one of the two vector sets is real (float dtype), the other complex, still
        # biorthogonal: L = L_0 + i * (dual vectors of the complement) * C keeps L^dagger R = 1
        d = rng.choice([3, 4, 5])
        r = rng.choice([1, 2])
        M = unimodular(rng, d, False)
        Minv = np.round(np.linalg.inv(M).real)
        assert np.allclose(Minv @ M, np.eye(d))
        R = M[:, :r].copy()
        dual = Minv.T
        C = np.array([[rng.randint(-2, 2) for _ in range(r)] for _ in range(d - r)], dtype=float)
        if not C.any():
            C[0, 0] = 1.0
        L = dual[:, :r] + 1j * (dual[:, r:] @ C)
        assert np.allclose(L.conj().T @ R, np.eye(r))
        if kind == "bi_complex_R_real_L":
            R, L = L, R          # (R^dagger L = 1 as well)
        return dict(R=R, L=L, herm=0, idem=1)
    if kind == "bi_nearly_hermitian":
        # L differs from an orthonormal R by 2^-20 times a vector orthogonal to R: exactly biorthogonal
        # (L^dagger R = 1), within any sensible "allclose" of R, but NOT R -- the projector is 1 - R L^dagger
        cx = rng.random() < 0.5
        Q = (DFT4 if cx else HAD4)
        perm = list(range(4))
        rng.shuffle(perm)
        Q = Q[:, perm]
        r = rng.choice([1, 2])
        R = Q[:, :r].copy()
        C = np.array([[rng.choice([-1, 1, 2]) for _ in range(r)] for _ in range(4 - r)], dtype=float)
        L = R + 2.0 ** -20 * (Q[:, r:] @ C)
        return dict(R=R, L=L, herm=0, idem=1)
    if kind == "general":
        d = rng.choice([3, 4])
        r = rng.choice([1, 2])
        cx = rng.random() < 0.5
        def rnd(cx_):
            a = np.array([[rng.randint(-2, 2) for _ in range(r)] for _ in range(d)], dtype=float)
            if cx_:
                a = a + 1j * np.array([[rng.randint(-2, 2) for _ in range(r)] for _ in range(d)])
            return a
        mixed = rng.choice([None, None, "R", "L"]) if cx else None     # one real, one complex vector set
        return dict(R=rnd(cx and mixed != "R"), L=rnd(cx and mixed != "L"), herm=0, idem=0)
    raise ValueError(kind)


def observe(P, x, y, X, A, p):
    from scipy.sparse.linalg import aslinearoperator

    def col(v):
        return common.red_matrix(np.asarray(v).reshape(-1, 1), p)

    def row(v):
        return common.red_matrix(np.asarray(v).reshape(1, -1), p)

    with warnings.catch_warnings():
        warnings.simplefilter("ignore")
        PAP = P @ aslinearoperator(A) @ P
        obs = dict(
            Pv=col(P @ x),
            vP=row(y @ P),
            PX=common.red_matrix(P @ X, p),
            XP=common.red_matrix(X.conj().T @ P, p),
            PHv=col(P.rmatvec(x)),
            PAPv=col(PAP @ x),
            PAPHv=col(PAP.H @ x),
            vPAP=row(y @ PAP),
            shape=[int(s) for s in P.shape],
            cplx=int(np.issubdtype(P.dtype, np.complexfloating)),
            PPv=col(P @ (P @ x)),
            PPop=col((P @ P) @ x),
            vPPop=row(y @ (P @ P)),
            PPHop=col((P @ P).H @ x),
            PPAop=col((P @ P @ aslinearoperator(A)) @ x),
        )
    return obs


def run_word(inst, word, sid, p, rng):
    from pymablock.linalg import ComplementProjector
    from scipy import sparse

    R, L = inst["R"], inst["L"]
    d = R.shape[0]
    cx = np.iscomplexobj(R) or np.iscomplexobj(L)
    x = np.array([rng.randint(-3, 3) + (1j * rng.randint(-2, 2) if cx else 0) for _ in range(d)])
    y = np.array([rng.randint(-3, 3) + (1j * rng.randint(-2, 2) if cx else 0) for _ in range(d)])
    X = np.array([[rng.randint(-2, 2) + (1j * rng.randint(-2, 2) if cx else 0) for _ in range(2)] for _ in range(d)])
    A = np.array([[rng.randint(-2, 2) + (1j * rng.randint(-1, 1) if cx else 0) for _ in range(d)] for _ in range(d)])
    A_op = sparse.csr_array(A) if rng.random() < 0.5 else A
    P = ComplementProjector(R) if inst["herm"] else ComplementProjector(R, L)
    steps = [dict(op="none", obs=observe(P, x, y, X, A_op, p))]
    for op in word:
        P = P.T if op == "T" else P.H if op == "H" else P.conjugate()
        steps.append(dict(op=op, obs=observe(P, x, y, X, A_op, p)))
    return dict(sid=sid, R=common.red_matrix(R, p), L=common.red_matrix(L, p), herm=inst["herm"], idem=inst["idem"],
                cplx=int(cx), x=common.red_matrix(x.reshape(-1, 1), p), y=common.red_matrix(y.reshape(1, -1), p),
                X=common.red_matrix(X, p), A=common.red_matrix(A, p), steps=steps)


def validate(sessions, workers=16, timeout=1800):
    res = common.run_tlc("Trace_Projector", CFG, trace=sessions, workers=workers, timeout=timeout)
    done = {t[1]: t[2] for t in res.lines("DONE")}
    fails = {}
    for t in res.lines("FAIL"):
        fails.setdefault(t[1], []).append((t[2], t[3]))
    missing = {s["sid"] for s in sessions} - set(done)
    if missing or res.rc != 0:
        raise MachineryError(f"Trace_Projector: no verdict for {sorted(missing)[:5]} rc={res.rc}\n" + res.out[-2500:])
    return res, done, fails


def run(pid, tier, seed, replay=None):
    t0 = time.time()
    p = common.P1
    quick = tier == "quick"
    stats = dict(states=0, transitions=0, traces=0)
    mode_a = None
    if replay is None:
        r = common.run_tlc("MC_Projector", MC_CFG if not quick else MC_CFG.replace("MaxWord = 5", "MaxWord = 4"),
                           timeout=1200)
        if "No error has been found" not in r.out:
            raise MachineryError("MC_Projector failed:\n" + r.out[-2500:])
        stats["states"] += r.distinct
        stats["transitions"] += r.generated
        mode_a = dict(spec="MC_Projector", distinct_states=r.distinct, exhaustive=True,
                      invariants=["InvDenotation", "InvLinksConsistent", "InvIdempotent"])
    kinds = ["herm_real", "herm_complex", "bi_real", "bi_complex", "general", "bi_real_R_complex_L",
             "bi_complex_R_real_L", "bi_nearly_hermitian"]
    words = ["".join(w) for w in itertools.product("THC", repeat=4)]
    sessions, metas, crashes = [], {}, []
    sid = 0
    reps = 1 if quick else 4
    plan = []
    if replay is not None:
        plan = [(replay["meta"]["kind"], replay["meta"]["word"], replay["meta"]["rep"])]
    else:
        for rep in range(reps):
            for kind in kinds:
                for w in (words if not quick else words[rep::2] + ["TTTT", "HHHH", "CCCC"]):
                    plan.append((kind, w, rep))
    for kind, w, rep in plan:
        sid += 1
        rng = common.rng_for(seed, pid, kind, w, rep)
        inst = gen_instance(rng, kind)
        metas[sid] = dict(kind=kind, word=w, rep=rep, d=int(inst["R"].shape[0]), r=int(inst["R"].shape[1]))
        try:
            sessions.append(run_word(inst, w, sid, p, rng))
        except Exception as e:  # noqa: BLE001
            crashes.append(dict(meta=metas[sid], error=f"{type(e).__name__}: {e}",
                                where=traceback.format_exc(limit=3)[-400:]))
    violations = []
    for c in crashes:
        violations.append(dict(kind="exception", **c))
    if sessions:
        res, done, fails = validate(sessions)
        stats["states"] += res.distinct
        stats["transitions"] += res.generated
        stats["traces"] += len(done)
        for s in sessions:
            if fails.get(s["sid"]):
                violations.append(dict(kind="clause", meta=metas[s["sid"]], clauses=sorted(set(fails[s["sid"]]))))
    control = None
    if replay is None and sessions:
        import copy

        bad = copy.deepcopy(sessions[0])
        bad["sid"] = 1
        bad["steps"][-1]["obs"]["vP"][0][0][0] = (bad["steps"][-1]["obs"]["vP"][0][0][0] + 1) % p
        _, _, cf = validate([bad], workers=2)
        if not cf.get(1):
            raise MachineryError("negative control accepted")
        control = dict(corrupted="vP[0] + 1 at last step", rejected_by=sorted({c for c, _ in cf[1]}))
    # group violations: one replay per distinct (kind-of-failure)
    lines = []
    seen = set()
    n = 0
    for v in violations:
        key = (v["kind"], v.get("error", "")[:60], str(v.get("clauses", ""))[:80])
        if key in seen:
            continue
        seen.add(key)
        if n < 10:
            path = common.write_replay(pid, f"{tier}_{seed}_{n}", dict(property=pid, **v))
            lines.append(f"VIOLATION property={pid} replay={path}")
            n += 1
    coverage = dict(
        states=max(stats["states"], 1), transitions=max(stats["transitions"], 1),
        traces_validated_against_impl=stats["traces"],
        samples=[dict(meta=metas[s["sid"]], first_step=s["steps"][0]["obs"]["shape"]) for s in sessions[:2]]
        or [dict(note="every session raised", example=crashes[:1])],
        evaluations=len(plan), distinct_nontrivial=len({(m["kind"], m["word"], m["d"], m["r"]) for m in metas.values()}),
        rule="session = (instance kind, word of 4 operations over T/H/C, d, r); every prefix of the word is observed "
             "with 11 applications each",
        sessions_raising=len(crashes), mode_a=mode_a, negative_control=control, exhaustive=not quick)
    common.write_evidence(pid, tier, seed, coverage, time.time() - t0, len(violations),
                          ["R, L are dyadic / Gaussian-integer matrices so that float results are exact"])
    return lines, len(violations)
