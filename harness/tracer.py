"""Deep tracer for the BlockSeries engine (harness side, no source change).

Wraps the public, assignable ``BlockSeries.eval`` attribute (data descriptor)
and the public ``pop`` method, and registers every BlockSeries created while a
session is active.  Emits one event per Engine.tla action:

    begin  eval of a cell starts (its in-flight marker is already set)
    end    eval returned (value about to be stored); carries the sentinel tag
    fail   eval raised (the frame is being unwound); carries the class
    pop    series.pop(index) called; `had` tells whether the cell was cached

and, from the harness's own drivers, req / ret / raise / inject.  Events carry
cheap scalar state only.  Enabled only while PYMABLOCK_VERIF=1 and a Session is
active; `uninstall()` restores the class.
"""

from __future__ import annotations

import os
import weakref

_ACTIVE = None  # the active Session, if any
_INSTALLED = False
_ORIG = {}


def guard_on() -> bool:
    return os.environ.get("PYMABLOCK_VERIF") == "1"


class _EvalProp:
    """Data descriptor standing in for the instance attribute ``eval``."""

    def __get__(self, obj, typ=None):
        if obj is None:
            return self
        f = obj.__dict__.get("_verif_eval_real", obj.__dict__.get("eval"))
        ses = _ACTIVE
        if ses is None or f is None:
            return f

        def wrapped(*index):
            key = (id(obj), tuple(index))
            if ses._stack and ses._stack[-1] == key:
                # a captured eval re-entered for the same cell (the library wraps
                # product.eval around the previous product.eval): one evaluation
                return f(*index)
            cell = ses.cell(obj, index)
            ses._stack.append(key)
            ses.emit("begin", cell)
            try:
                v = f(*index)
            except BaseException as e:  # noqa: BLE001
                ses._stack.pop()
                if not ses.unwinding:
                    # nothing was injected: the exception was born inside the
                    # engine (recursion detection) or is a genuine error
                    ses.unwinding = True
                    ses.emit("detect", exc=type(e).__name__)
                ses.emit("fail", cell, exc=type(e).__name__)
                raise
            ses._stack.pop()
            if ses.value_fn is not None:
                ses.emit("end", cell, tag=ses.tag(v), v=ses.value_fn(v))
            else:
                ses.emit("end", cell, tag=ses.tag(v))
            return v

        return wrapped

    def __set__(self, obj, val):
        obj.__dict__["_verif_eval_real"] = val


def install():
    global _INSTALLED
    if _INSTALLED or not guard_on():
        return _INSTALLED
    from pymablock.series import BlockSeries

    _ORIG["init"] = BlockSeries.__init__
    _ORIG["pop"] = BlockSeries.pop
    orig_init, orig_pop = _ORIG["init"], _ORIG["pop"]

    def init(self, *a, **kw):
        orig_init(self, *a, **kw)
        if _ACTIVE is not None:
            _ACTIVE.register(self)

    def pop(self, item, default, /):
        ses = _ACTIVE
        if ses is not None:
            try:
                had = item in self._data
            except Exception:  # noqa: BLE001
                had = None
            ses.emit("pop", ses.cell(self, item), had=had)
        return orig_pop(self, item, default)

    BlockSeries.__init__ = init
    BlockSeries.pop = pop
    BlockSeries.eval = _EvalProp()
    _INSTALLED = True
    return True


def uninstall():
    global _INSTALLED
    if not _INSTALLED:
        return
    from pymablock.series import BlockSeries

    BlockSeries.__init__ = _ORIG["init"]
    BlockSeries.pop = _ORIG["pop"]
    del BlockSeries.eval
    _INSTALLED = False


class Session:
    """Collects the events of one traced session."""

    def __init__(self):
        self.events = []
        self._ids = {}
        self._refs = []
        self._count = 0
        self._stack = []
        self.unwinding = False
        self.value_fn = None

    # -- registry ----------------------------------------------------------
    def register(self, series):
        self._count += 1
        self._ids[id(series)] = f"{series.name}#{self._count}"
        self._refs.append(weakref.ref(series))
        try:
            preset = list(series._data.items())
        except AttributeError:
            preset = []
        for index, v in preset:
            self.emit("preset", self.cell(series, index), tag=self.tag(v))
        # instances created before install keep their plain attribute; those
        # created now store eval through the descriptor automatically

    def label(self, series):
        key = id(series)
        if key not in self._ids:
            self.register(series)
        return self._ids[key]

    def cell(self, series, index):
        index = tuple(int(i) for i in index)
        n_inf = series.n_infinite
        return dict(s=self.label(series), i=list(index), ord=list(index[len(index) - n_inf:]) if n_inf else [])

    @staticmethod
    def tag(v):
        from pymablock.series import one, zero

        return "zero" if v is zero else "one" if v is one else "val"

    def emit(self, t, cell=None, **kw):
        ev = dict(t=t)
        if cell is not None:
            ev.update(cell)
        ev.update(kw)
        self.events.append(ev)

    def pending_cells(self):
        """Projection of the real state: number of in-flight markers left."""
        try:
            from pymablock.series import PENDING
        except ImportError:
            return -1
        n = 0
        for r in self._refs:
            s = r()
            if s is None:
                continue
            try:
                n += sum(1 for v in s._data.values() if v is PENDING)
            except AttributeError:
                return -1
        return n

    # -- context -----------------------------------------------------------
    def __enter__(self):
        global _ACTIVE
        install()
        _ACTIVE = self
        return self

    def __exit__(self, *exc):
        global _ACTIVE
        _ACTIVE = None
        return False
