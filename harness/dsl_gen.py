"""Generator of well-founded programs in the documented series mini-language (C09).

Well-foundedness by construction: series S1..Sm are defined in this order; the
definition of St at order n may use the input "A" and any EARLIER series at the same
index, and products.  A product X @ Y at order n needs Y[n] only if X has a non-zero
zeroth order (and vice versa), so a product all of whose factors have `start = 0` may
involve ANY series (only strictly lower orders are needed -- this is how the shipped
algorithms close their recursion); a product with a factor without `start = 0` may
only involve the input and earlier series.
"""

from __future__ import annotations

import importlib.util
import os
import tempfile

from . import dsl_parse

_KEEP = []  # keep generated modules (and their temp dirs) alive


DIVISORS = [2, -2, 3, 4]


def gen_expr(rng, atoms, depth=0):
    """A random expression over the given atom strings (already quoted source text)."""
    r = rng.random()
    if depth >= 2 or r < 0.35:
        a = rng.choice(atoms)
        if rng.random() < 0.3:
            a = a + ".adj"
        if rng.random() < 0.2:
            a = "-" + a
        return a
    if r < 0.65:
        return f"{gen_expr(rng, atoms, depth + 1)} {rng.choice(['+', '-'])} {gen_expr(rng, atoms, depth + 1)}"
    if r < 0.8:
        return f"({gen_expr(rng, atoms, depth + 1)}) / {rng.choice(DIVISORS)}"
    if r < 0.93:
        return f"{rng.choice(['dbl', 'tri'])}({gen_expr(rng, atoms, depth + 1)})"
    return f"ident({rng.choice(atoms).replace('.adj', '')})"


def gen_program(rng, idx, inputs=("A",), divisors=(2, -2, 3, 4), max_factors=3):
    m = rng.choice([2, 3, 3, 4])
    names = [f"S{t}" for t in range(1, m + 1)]
    # start = "A_0": the zeroth order is the input's zeroth order, on EVERY block
    global DIVISORS
    DIVISORS = list(divisors)
    in0 = [f'"{x}_0"' for x in inputs]
    starts = {nm: rng.choice(["0", "0", None, "1", rng.choice(in0)]) for nm in names}
    starts[names[0]] = rng.choice(["0", "0", None, rng.choice(in0)])
    zero_start = [nm for nm in names if starts[nm] == "0"]
    products = []
    # products closing the recursion: all factors start at zero
    for _ in range(rng.choice([0, 1, 2])):
        if len(zero_start) >= 1:
            nf = rng.choice([2, 2, 3]) if max_factors >= 3 else 2
            fs = [rng.choice(zero_start) for _ in range(nf)]
            products.append((" @ ".join(fs), None, False))
    # forward products: input / earlier series only, usable from a later series
    fwd = []
    for t in range(2, m + 1):
        if rng.random() < 0.5:
            pool = list(inputs) + names[: t - 1]
            fs = [rng.choice(pool) for _ in range(2)]
            if sum(1 for f in fs if starts.get(f) == "1") >= 2:
                # one @ one plus another term is the bare-`one` sum the library cannot form
                # (known finding of C18, not a subject of C09)
                continue
            fwd.append((" @ ".join(fs), t, False))
    seen = set()
    allp = []
    for p in products + fwd:
        if p[0] not in seen:
            seen.add(p[0])
            allp.append(p)
    lines = [f"def prog_{idx}():"]
    for t, nm in enumerate(names, start=1):
        # a series that starts with the `one` sentinel can only be used as a product factor
        # (the sentinel supports neither +, - nor .adj): it is not an expression atom
        atoms = [f'"{x}"' for x in inputs] + [f'"{x}"' for x in names[: t - 1] if starts[x] != "1"]
        atoms += [f'"{p[0]}"' for p in allp if p[1] is None or p[1] <= t]
        lines.append(f'    with "{nm}":')
        if starts[nm] is not None:
            lines.append(f"        start = {starts[nm]}")
        mark = rng.choice([None, None, "hermitian", "antihermitian"])
        if mark:
            lines.append(f"        {mark}")
        shape = rng.choice(["default", "split", "diag_only", "both"])
        if shape == "default":
            lines.append(f"        {gen_expr(rng, atoms)}")
        elif shape == "split":
            lines.append("        if diagonal:")
            lines.append(f"            {gen_expr(rng, atoms)}")
            lines.append("        if offdiagonal:")
            lines.append(f"            {gen_expr(rng, atoms)}")
        elif shape == "diag_only":
            lines.append("        if diagonal:")
            lines.append(f"            {gen_expr(rng, atoms)}")
        else:
            lines.append(f"        {gen_expr(rng, atoms)}")
            lines.append("        if offdiagonal:")
            lines.append(f"            {gen_expr(rng, atoms)}")
        if mark is None and rng.random() < 0.3:
            # an explicit `lower` condition, as the LAST line of the definition: everything above it is summed
            # for lower-triangle blocks too
            lines.append("        if lower:")
            lines.append(f"            {gen_expr(rng, atoms)}")
    # products that ARE Hermitian and are DECLARED hermitian (the Hermiticity shortcut must not change them):
    # Sd = Sx^dagger, Hh = A + A^dagger;  "Sd @ Sx" and (if allowed) the n-ary "Sd @ Hh @ Sx"
    herm_products = []
    base = [nm for nm in names if starts[nm] != "1"]
    if base and rng.random() < 0.45:
        sx = rng.choice(base)
        lines.append('    with "Sd":')
        lines.append(f'        "{sx}".adj')
        herm_products.append(f"Sd @ {sx}")
        use = [f'"Sd @ {sx}"']
        if max_factors >= 3 and rng.random() < 0.7:
            lines.append('    with "Hh":')
            lines.append(f'        "{inputs[0]}" + "{inputs[0]}".adj')
            herm_products.append(f"Sd @ Hh @ {sx}")
            use.append(f'"Sd @ Hh @ {sx}"')
        lines.append('    with "Sz":')
        lines.append("        " + " + ".join(use))
        names = names + ["Sz"]
    for p, _, herm in allp:
        lines.append(f'    with "{p}":')
        lines.append("        pass")
    for p in herm_products:
        if p not in seen:
            lines.append(f'    with "{p}":')
            lines.append("        hermitian")
    outs = rng.sample(names, rng.randint(1, len(names)))
    lines.append("    return " + ", ".join(f'"{x}"' for x in outs) + ("," if len(outs) == 1 else ""))
    return "\n".join(lines) + "\n"


def load_function(src, idx):
    d = tempfile.mkdtemp(prefix="verif_dsl_")
    path = os.path.join(d, f"gen_{idx}.py")
    with open(path, "w") as f:
        f.write(src)
    spec = importlib.util.spec_from_file_location(f"verif_gen_{idx}", path)
    mod = importlib.util.module_from_spec(spec)
    # the body is never executed as Python: only its source is parsed
    _KEEP.append((d, mod))
    import linecache
    import types

    code = compile(src, path, "exec")
    ns = {}
    # executing the def statement only creates the function object (strings and
    # bare names in its body are never evaluated)
    exec(code, ns)  # noqa: S102
    fn = ns[f"prog_{idx}"]
    linecache.checkcache(path)
    return fn


def numeric_specs(rng, n):
    """Programs over TWO inputs, run on numpy values (dyadic divisors only), with and without
    the linear-operator mode of one diagonal block."""
    out = []
    for q in range(n):
        idx = rng.randrange(10**6)
        nb = rng.choice([2, 2, 3])
        lo_block = [None, nb - 1, nb - 1, rng.randrange(nb)][q % 4]
        # with a block kept as linear operators only BINARY products: the intermediate plain product of an
        # n-ary product at that block would have to add dense arrays to operators (TypeError in the library;
        # the shipped algorithms only declare binary products)
        src = gen_program(rng, idx, inputs=("A", "B"), divisors=(2, -2, 4), max_factors=3 if lo_block is None else 2)
        fn = load_function(src, idx)
        prog = dsl_parse.parse_algorithm(src)
        sizes = [rng.choice([1, 2, 2, 3]) for _ in range(nb)]
        k = rng.choice([1, 1, 2])
        out.append(dict(algo="generated", source=src, hermitian=False, nb=nb, sizes=sizes, k=k,
                        N=3 if k == 1 else 2, masked=[], flags={}, generic_zeroth=True, numeric=True,
                        lo_block=lo_block, inputs=["A", "B"],
                        _func=fn, _prog=prog))
    return out


def generated_specs(rng, n):
    out = []
    for q in range(n):
        idx = rng.randrange(10**6)
        src = gen_program(rng, idx)
        fn = load_function(src, idx)
        prog = dsl_parse.parse_algorithm(src)
        nb = rng.choice([1, 2, 2, 3])
        sizes = [rng.choice([1, 2, 2]) for _ in range(nb)]
        k = rng.choice([1, 1, 2])
        masked = sorted(rng.sample(range(nb), rng.randint(0, nb))) if rng.random() < 0.4 else []
        out.append(dict(algo=f"generated", source=src, hermitian=False, nb=nb, sizes=sizes, k=k,
                        N=3 if k == 1 else 2, masked=masked, flags={}, generic_zeroth=rng.random() < 0.7,
                        _func=fn, _prog=prog))
    return out


def cleanup():
    import shutil

    for d, _ in _KEEP:
        shutil.rmtree(d, ignore_errors=True)
    _KEEP.clear()
