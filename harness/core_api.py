"""Check C20: ill-posed problems are rejected, well-posed numeric ones give finite values.

  Mode B  MC_Api: TLC enumerates every applicable configuration (class of
          ill-posedness x position x value type x container x mode); the harness
          instantiates each one inside an otherwise valid 3-block problem.
  Mode C  Trace_Api: the outcome of the definition and of each request is judged
          by TLC against Api!DefineExpected / Api!RequestExpected.
"""

from __future__ import annotations

import copy
import time
import traceback
import warnings
from fractions import Fraction

import numpy as np

from . import common, hermitian
from .common import MachineryError, Regenerate, order_seq

MC_CFG = (common.SPEC / "MC_Api.cfg").read_text()
TR_CFG = (common.SPEC / "Trace_Api.cfg").read_text()
OUT = {"Ht": 0, "U": 1, "Ud": 2}
F0, F1 = Fraction(0), Fraction(1)


def enumerate_configs():
    res = common.run_tlc("MC_Api", MC_CFG, workers=1, timeout=300)
    cfgs = sorted({tuple(t[1:6]) for t in res.lines("CFG")})
    if not cfgs:
        raise MachineryError("MC_Api produced no configuration:\n" + res.out[-1500:])
    return [dict(zip(("class", "pos", "vtype", "container", "mode"), c)) for c in cfgs], res


def base_instance(rng, cfg):
    vt = {"dense": rng.choice(["numpy", "numpy_complex"]), "sparse": "sparse", "sympy": "sympy"}[cfg["vtype"]]
    sizes = rng.choice([[2, 1, 2], [1, 2, 2], [2, 2, 1], [2, 2, 2]])
    herm = cfg["mode"] == "hermitian"
    for _ in range(40):
        try:
            inst = hermitian.gen_instance(rng, d=sum(sizes), sizes=sizes, k=1, N=3, vtype=vt, fdkind="none",
                                          hermitian=herm, shuffle=False)
            # dense first-order coupling everywhere so that every block pair is coupled
            gen = hermitian.rand_herm if herm else hermitian.rand_general
            inst["terms"][(1,)] = gen(rng, inst["d"], complex_=vt in ("numpy_complex", "sympy"),
                                      dens=(1, 2) if vt != "sympy" else (1, 3), amp=2, fill=1.0)
            for i in range(inst["d"]):
                for j in range(inst["d"]):
                    if i != j and inst["terms"][(1,)][i][j] == (F0, F0):
                        inst["terms"][(1,)][i][j] = (F1, F0)
                        if herm:
                            inst["terms"][(1,)][j][i] = (F1, F0)
            inst["format"] = cfg["container"]
            return inst
        except Regenerate:
            continue
    raise Regenerate("no base instance")


def block_pair(pos):
    return {"first": (0, 1), "middle": (0, 2), "last": (1, 2)}[pos]


def which_block(pos):
    return {"first": 0, "middle": 1, "last": 2}[pos]


def states_of(inst, b):
    return [i for i in range(inst["d"]) if inst["sub_idx"][i] == b]


def instantiate(rng, cfg):
    """Returns (callable performing the definition, requests, cfg record for TLC)."""
    import pymablock

    cls = cfg["class"]
    inst = base_instance(rng, cfg)
    d = inst["d"]
    rec = dict(cfg, bi=-1, bj=-1, m=[0])
    kw = {}
    use_vectors = None
    herm = cfg["mode"] == "hermitian"
    if cls == "h0_offdiagonal":
        bi, bj = block_pair(cfg["pos"])
        a, b = states_of(inst, bi)[0], states_of(inst, bj)[-1]
        ex = [[(F0, F0)] * d for _ in range(d)]
        # Hermitian mode: the coupling is necessarily symmetric. Non-Hermitian mode: the
        # offending coupling may sit above the block diagonal only, below it only, or both.
        where = "both" if herm else rng.choice(["upper", "lower", "lower", "both"])
        if where in ("upper", "both"):
            ex[a][b] = (F1, F0)
        if where in ("lower", "both"):
            ex[b][a] = (F1, F0)
        inst["h0_extra"] = ex
        rec["where"] = where
    elif cls == "shared_energy_blocks":
        bi, bj = block_pair(cfg["pos"])
        a, b = states_of(inst, bi)[0], states_of(inst, bj)[-1]
        inst["E"] = list(inst["E"])
        inst["E"][b] = inst["E"][a]
        rec.update(bi=bi, bj=bj, m=[1])
    elif cls == "mask_on_degenerate":
        b = next((x for x in [which_block(cfg["pos"]), 0, 1, 2] if inst["sizes"][x] >= 2), None)
        st = states_of(inst, b)
        inst["E"] = list(inst["E"])
        inst["E"][st[1]] = inst["E"][st[0]]
        msk = np.zeros((len(st), len(st)), dtype=bool)
        msk[0, 1] = msk[1, 0] = True
        inst["fdkind"], inst["fd_blocks"], inst["masks"] = "dict", [b], {b: msk}
        # variant: a second mask that eliminates nothing, on a LOWER-numbered block of the same size whose
        # own levels differ, and the dictionary written with DESCENDING keys (masks paired with the
        # degeneracy patterns by position instead of by key would let the offending mask through)
        lower = [x for x in range(b) if inst["sizes"][x] == len(st)]
        if lower:
            b2 = lower[0]
            st2 = states_of(inst, b2)
            if len(st2) >= 2 and inst["E"][st2[0]] == inst["E"][st2[1]]:
                raise Regenerate("degenerate pair in the second masked block")
            inst["fd_blocks"] = [b, b2]
            inst["masks"] = {b: msk, b2: np.zeros((len(st2), len(st2)), dtype=bool)}
            rec["where"] = "offending_mask_first_descending_keys"
    elif cls == "asymmetric_mask":
        b = next((x for x in [which_block(cfg["pos"]), 0, 1, 2] if inst["sizes"][x] >= 2), None)
        st = states_of(inst, b)
        inst["E"] = list(inst["E"])
        lv = sorted({hermitian.epair(e)[0] for e in inst["E"]})
        # make the two states non-degenerate so that only the asymmetry is wrong
        if inst["E"][st[0]] == inst["E"][st[1]]:
            raise Regenerate("degenerate")
        msk = np.zeros((len(st), len(st)), dtype=bool)
        msk[0, 1] = True
        inst["fdkind"], inst["fd_blocks"], inst["masks"] = "dict", [b], {b: msk}
        # variant: a second, SYMMETRIC mask on another block, listed after (or before) the asymmetric one
        others = [x for x in range(3) if x != b and inst["sizes"][x] >= 2]
        if others and cfg["container"] in ("dict", "list", "blockseries"):
            b2 = others[0]
            st2 = states_of(inst, b2)
            inst["E"] = list(inst["E"])
            if inst["E"][st2[0]] == inst["E"][st2[1]]:
                raise Regenerate("degenerate pair in the second masked block")
            if True:
                sym = np.zeros((len(st2), len(st2)), dtype=bool)
                sym[0, 1] = sym[1, 0] = True
                order = [b2, b] if cfg["pos"] == "last" else [b, b2]
                inst["fd_blocks"], inst["masks"] = order, {b: msk, b2: sym}
                rec["where"] = "asymmetric_first_of_two" if order[0] == b else "asymmetric_last_of_two"
    elif cls in ("not_orthonormal", "not_biorthonormal", "pairs_in_hermitian_mode", "exclusive_indices_and_vectors"):
        use_vectors = cls
        if cls in ("not_orthonormal", "not_biorthonormal"):
            # "scaled": one subspace has vectors of norm 2.  "overlap": every subspace is orthonormal by
            # itself, but one vector of block tb leans into block tc (3/5 e_a + 4/5 e_c), and the
            # Hamiltonian is the one that is block diagonal IN THAT NON-ORTHOGONAL FRAME
            # (H' = V^-dagger H V^-1), so that only the (bi)orthonormality check can reject it.
            rec["where"] = rng.choice(["scaled", "overlap"])
            if rec["where"] == "overlap":
                tb = which_block(cfg["pos"])
                tc = (tb + 1) % 3
                a, c = states_of(inst, tb)[0], states_of(inst, tc)[0]
                I = hermitian.ident(d)
                V = [list(r) for r in I]
                V[a][a] = (Fraction(3, 5), F0)
                V[c][a] = (Fraction(4, 5), F0)
                Vi = [list(r) for r in I]           # V^-1 = 1 - (v - e_a) e_a^T / v_a
                Vi[a][a] = (Fraction(5, 3), F0)
                Vi[c][a] = (Fraction(-4, 3), F0)
                inst["basis"] = dict(kind="overlap", M=hermitian.madj(Vi), Mi=Vi)
                inst["_frame"] = V
    elif cls == "nonhermitian_symbolic_term":
        m = {"first": 1, "middle": 2, "last": 3}[cfg["pos"]]
        t = hermitian.rand_herm(rng, d, complex_=True, dens=(1, 2), amp=2, fill=1.0)
        t[0][1] = (t[0][1][0] + 1, t[0][1][1])  # breaks Hermiticity
        inst["terms"][(m,)] = t
        rec.update(m=[m])
    elif cls == "exclusive_solver_and_fd":
        inst["fdkind"], inst["fd_blocks"] = "tuple", [which_block(cfg["pos"])]
        kw["solve_sylvester"] = lambda Y, index: Y
    elif cls == "wellposed":
        inst["fdkind"] = rng.choice(["none", "tuple"])
        inst["fd_blocks"] = [which_block(cfg["pos"])] if inst["fdkind"] == "tuple" else []

    def define():
        H, extra, pmap = hermitian.present(inst)
        des = hermitian.designation(inst)
        if use_vectors:
            conv = hermitian.to_sympy if inst["vtype"] == "sympy" else (
                lambda m_: hermitian.to_numpy(m_, force_complex=inst.get("complex", False)))
            I = inst.get("_frame") or hermitian.ident(d)
            vecs = []
            for b in range(3):
                cols = states_of(inst, b)
                Rb = [[I[r][c] for c in cols] for r in range(d)]
                vecs.append(Rb)
            tb = which_block(cfg["pos"])
            if use_vectors == "not_orthonormal":
                if rec.get("where") != "overlap":
                    vecs[tb] = [[(x[0] * 2, x[1]) for x in row] for row in vecs[tb]]
                des = dict(subspace_eigenvectors=tuple(conv(v) for v in vecs))
            elif use_vectors == "not_biorthonormal":
                L = copy.deepcopy(vecs)
                if rec.get("where") != "overlap":
                    L[tb] = [[(x[0] * 2, x[1]) for x in row] for row in L[tb]]
                des = dict(subspace_eigenvectors=tuple((conv(r), conv(l)) for r, l in zip(vecs, L)))
            elif use_vectors == "pairs_in_hermitian_mode":
                des = dict(subspace_eigenvectors=tuple(
                    (conv(v), conv(v)) if b == tb else conv(v) for b, v in enumerate(vecs)))
            else:
                des = dict(subspace_eigenvectors=tuple(conv(v) for v in vecs),
                           subspace_indices=list(inst["sub_idx"]))
        return pymablock.block_diagonalize(H, fully_diagonalize=hermitian.fd_argument(inst), hermitian=herm,
                                           **des, **extra, **kw)

    # requests: order zero, the ones the class pins down, and a few more
    reqs = [("Ht", 0, 0, (0,)), ("U", 1, 1, (0,)), ("Ht", 2, 2, (0,))]
    if cls == "shared_energy_blocks":
        reqs += [("U", rec["bi"], rec["bj"], (1,)), ("Ud", rec["bj"], rec["bi"], (1,))]
    if cls == "nonhermitian_symbolic_term":
        m = rec["m"][0]
        reqs += [("Ht", 1, 1, (m - 1,)), ("U", 0, 1, (m - 1,)), ("Ht", 0, 0, (m,)), ("Ht", 2, 2, (m,))]
    reqs += [("Ht", 0, 0, (2,)), ("U", 0, 2, (2,)), ("Ud", 1, 0, (3,)), ("Ht", 1, 1, (3,))]
    return inst, define, reqs, rec


def finite_block(v):
    import sympy
    from pymablock.series import one, zero
    from scipy import sparse

    if v is zero or v is one:
        return 1
    if sparse.issparse(v):
        v = v.toarray()
    if isinstance(v, sympy.MatrixBase):
        return int(not v.has(sympy.nan, sympy.oo, sympy.zoo, -sympy.oo))
    try:
        return int(bool(np.isfinite(np.asarray(v, dtype=complex)).all()))
    except Exception:  # noqa: BLE001
        return 1


def run_config(rng, cfg, sid):
    for _ in range(30):
        try:
            inst, define, reqs, rec = instantiate(rng, cfg)
            break
        except Regenerate:
            continue
    else:
        return None
    with warnings.catch_warnings():
        warnings.simplefilter("ignore")
        try:
            outs = define()
            d_out = dict(kind="ret", cls="", finite=1)
        except BaseException as e:  # noqa: BLE001
            outs = None
            d_out = dict(kind="raise", cls=type(e).__name__, finite=1, msg=str(e)[:120])
        rlog = []
        if outs is not None:
            series = dict(zip(("Ht", "U", "Ud"), outs))
            for (o, i, j, n) in reqs:
                try:
                    v = series[o][(i, j, *n)]
                    oc = dict(kind="ret", cls="", finite=finite_block(v))
                except BaseException as e:  # noqa: BLE001
                    oc = dict(kind="raise", cls=type(e).__name__, finite=1, msg=str(e)[:120])
                rlog.append(dict(r=dict(out=o, i=i, j=j, n=list(n)), o=oc))
    return dict(sid=sid, cfg=rec, define=d_out, reqs=rlog), hermitian.describe(inst)


def validate(sessions, workers=16, timeout=900):
    res = common.run_tlc("Trace_Api", TR_CFG, trace=sessions, workers=workers, timeout=timeout)
    done = {t[1]: t[2] for t in res.lines("DONE")}
    fails = {}
    for t in res.lines("FAIL"):
        fails.setdefault(t[1], []).append((t[2], t[3]))
    missing = {s["sid"] for s in sessions} - set(done)
    if missing or res.rc != 0:
        raise MachineryError(f"Trace_Api: no verdict for {sorted(missing)[:5]} rc={res.rc}\n" + res.out[-2500:])
    return res, done, fails


def run(pid, tier, seed, replay=None):
    t0 = time.time()
    quick = tier == "quick"
    cfgs, res_b = enumerate_configs()
    stats = dict(states=res_b.distinct, transitions=res_b.generated)
    reps = 1 if quick else 4
    if quick:
        rq = common.rng_for(seed, pid, "sample")
        by_class = {}
        for c in cfgs:
            by_class.setdefault(c["class"], []).append(c)
        chosen = []
        for cl, lst in sorted(by_class.items()):
            chosen += rq.sample(lst, min(len(lst), 40))   # (most classes have fewer than 40 configurations: all of them)
        cfgs_run = chosen
    else:
        cfgs_run = cfgs
    if replay is not None:
        cfgs_run = [{k: replay["cfg"][k] for k in ("class", "pos", "vtype", "container", "mode")}]
        reps = 1
    sessions, metas, crashes = [], {}, []
    sid = 0
    for rep in range(reps):
        for cfg in cfgs_run:
            sid += 1
            rng = common.rng_for(seed, pid, str(sorted(cfg.items())), rep)
            try:
                got = run_config(rng, cfg, sid)
            except Exception as e:  # noqa: BLE001
                crashes.append(dict(cfg=cfg, error=f"{type(e).__name__}: {e}", where=traceback.format_exc(limit=3)[-300:]))
                continue
            if got is None:
                continue
            sessions.append(got[0])
            metas[sid] = dict(cfg=got[0]["cfg"], instance=got[1], define=got[0]["define"],
                              requests=[(r["r"], r["o"]) for r in got[0]["reqs"]])
    violations, known = [], []
    kf = common.load_known_findings()
    res, done, fails = validate(sessions)
    stats["states"] += res.distinct
    stats["transitions"] += res.generated
    for s in sessions:
        f = fails.get(s["sid"])
        if not f:
            continue
        v = dict(clauses=sorted(set(f)), **metas[s["sid"]])
        k = match_known(v, kf)
        if k:
            known.append(k)
        else:
            violations.append(v)
    control = None
    if replay is None:
        bad = copy.deepcopy(next(s for s in sessions if s["cfg"]["class"] == "wellposed" and s["reqs"]))
        bad["sid"] = 1
        bad["reqs"][0]["o"]["finite"] = 0
        _, _, cf = validate([bad], workers=2)
        if not cf.get(1):
            raise MachineryError("negative control accepted")
        control = dict(corrupted="finite flag of a well-posed value", rejected_by=sorted({c for c, _ in cf[1]}))
    lines = [f"KNOWN-FINDING: property={pid} {k}" for k in sorted(set(known))]
    seen = set()
    for v in violations:
        key = (v["cfg"]["class"], v["cfg"]["vtype"], v["cfg"]["container"], str(v["clauses"][0][0]))
        if key in seen or len(seen) >= 10:
            continue
        seen.add(key)
        path = common.write_replay(pid, f"{tier}_{seed}_{len(seen) - 1}", dict(property=pid, **v))
        lines.append(f"VIOLATION property={pid} replay={path}")
    per_class = {}
    for m in metas.values():
        per_class[m["cfg"]["class"]] = per_class.get(m["cfg"]["class"], 0) + 1
    coverage = dict(
        states=max(stats["states"], 1), transitions=max(stats["transitions"], 1),
        traces_validated_against_impl=len(sessions),
        samples=[metas[s["sid"]] for s in sessions[:1]] + [metas[s["sid"]] for s in sessions[-1:]],
        evaluations=len(sessions), distinct_nontrivial=len({str(sorted(m["cfg"].items())) for m in metas.values()}),
        rule="configuration = (class, position, value type, container, mode) enumerated by TLC from Api!Configs, "
             "instantiated in a random otherwise valid 3-block problem",
        configurations_in_space=len(cfgs), sessions_per_class=per_class, harness_crashes=crashes[:3],
        known_findings_hit=sorted(set(known)), negative_control=control, exhaustive=not quick)
    common.write_evidence(pid, tier, seed, coverage, time.time() - t0, len(violations),
                          ["only requests that CERTAINLY need the ill-defined quantity are required to be rejected "
                           "(first-order U block of a coupled degenerate pair; H_tilde[i,i,m] for a non-Hermitian term at m)"])
    return lines, len(violations)


def match_known(v, kf):
    for f in kf.get("findings", []):
        if f.get("property") != "C20":
            continue
        if f.get("matcher") == "class_vtype" and v["cfg"]["class"] == f["class"] and v["cfg"]["vtype"] in f["vtypes"]:
            return f["what"]
    return None
