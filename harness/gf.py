"""GF(p^2) matrices as a Python element type with exactly the duck type pymablock documents
for custom elements: @, +, -, unary -, / int, adjoint().  The UNMODIFIED series_computation /
cauchy_dot_product then run natively in the very field TLC computes in."""

from __future__ import annotations

import numpy as np


class GF:
    __slots__ = ("re", "im", "p")
    __array_ufunc__ = None

    def __init__(self, re, im, p):
        self.re = np.asarray(re, dtype=np.int64) % p
        self.im = np.asarray(im, dtype=np.int64) % p
        self.p = p

    @property
    def shape(self):
        return self.re.shape

    @classmethod
    def random(cls, rng, r, c, p, hermitian=False):
        re = np.array([[rng.randrange(p) for _ in range(c)] for _ in range(r)], dtype=np.int64)
        im = np.array([[rng.randrange(p) for _ in range(c)] for _ in range(r)], dtype=np.int64)
        x = cls(re, im, p)
        if hermitian:
            x = (x + x.adjoint())
        return x

    def __matmul__(self, o):
        if not isinstance(o, GF):
            return NotImplemented
        p = self.p
        # entries < p < 2^16, sums of d products < 2^63
        re = (self.re @ o.re - self.im @ o.im) % p
        im = (self.re @ o.im + self.im @ o.re) % p
        return GF(re, im, p)

    def __add__(self, o):
        if not isinstance(o, GF):
            return NotImplemented
        return GF(self.re + o.re, self.im + o.im, self.p)

    def __sub__(self, o):
        if not isinstance(o, GF):
            return NotImplemented
        return GF(self.re - o.re, self.im - o.im, self.p)

    def __neg__(self):
        return GF(-self.re, -self.im, self.p)

    def __truediv__(self, k):
        if not isinstance(k, int):
            raise TypeError("GF elements divide by integers only")
        inv = pow(k % self.p, -1, self.p)
        return GF(self.re * inv, self.im * inv, self.p)

    def __mul__(self, k):
        if isinstance(k, int):
            return GF(self.re * (k % self.p), self.im * (k % self.p), self.p)
        return NotImplemented

    __rmul__ = __mul__

    def adjoint(self):
        return GF(self.re.T, -self.im.T, self.p)

    def hadamard(self, mask):
        m = np.asarray(mask, dtype=np.int64)
        return GF(self.re * m, self.im * m, self.p)

    def is_zero(self):
        return not (self.re.any() or self.im.any())

    def residues(self):
        return [[[int(self.re[i, j]), int(self.im[i, j])] for j in range(self.re.shape[1])]
                for i in range(self.re.shape[0])]

    def __eq__(self, o):
        return isinstance(o, GF) and (self.re == o.re).all() and (self.im == o.im).all()

    def __hash__(self):
        return hash((self.re.tobytes(), self.im.tobytes()))
