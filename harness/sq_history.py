"""C10 on OPERATOR-VALUED (second-quantised) computations: history independence.

A matrix of boson-operator expressions with three one-level blocks (and variants) is block
diagonalised three times from the same input: elements requested in a forward order, in the
reverse order, and each element alone in a fresh computation.  Every element is turned into
data (power tuples + coefficient tables over a Fock window, core_nof.nof_record) and TLC
(Trace_Fock, check kind `eq`) decides that the three histories denote the same operator.
"""

from __future__ import annotations

import warnings

from . import common, core_nof


def build_session(sid, seed):
    import sympy
    from pymablock import block_diagonalize
    from pymablock.number_ordered_form import NumberOrderedForm as NOF
    from pymablock.series import one, zero
    from sympy.physics.quantum import Dagger

    rng = common.rng_for(seed, "C10", "sq", sid)
    p = common.P1
    modes = [dict(kind="boson", name="a", lo=0, hi=7)]
    ops = core_nof.sympy_ops(modes)
    states = core_nof.states_of(modes)
    a = ops[0]
    from pymablock.number_ordered_form import NumberOperator

    N = NumberOperator(a)
    w = sympy.Rational(rng.randint(3, 6), rng.choice([1, 2]))
    al = sympy.Rational(1, rng.choice([5, 7, 11])) if rng.random() < 0.5 else 0
    nb = 3
    deltas = [0, sympy.Rational(rng.choice([7, 9, 11]), 2), sympy.Rational(-rng.choice([13, 15, 17]), 3)]
    g = sympy.Rational(rng.randint(1, 3), rng.choice([1, 2]))
    # identical coupling expressions in every block pair (the block pair only enters through the levels)
    coupling = g * (a + Dagger(a)) if rng.random() < 0.6 else g * a + g * Dagger(a) * (1 + N)
    H0 = sympy.diag(*[w * N + al * N**2 + d_ for d_ in deltas])
    H1 = sympy.Matrix(nb, nb, lambda i, j: 0 if i == j else (coupling if i < j else Dagger(coupling)))

    def compute():
        with warnings.catch_warnings():
            warnings.simplefilter("ignore")
            return block_diagonalize([H0, H1], subspace_indices=list(range(nb)))

    elems = [("U", 0, 1, 1), ("U", 0, 2, 1), ("U", 1, 2, 1), ("Ht", 0, 0, 2), ("Ht", 1, 1, 2), ("U", 2, 0, 1),
             ("U", 0, 1, 2)]
    rng.shuffle(elems)

    def get(outs, e):
        S = dict(Ht=outs[0], U=outs[1], Ud=outs[2])[e[0]]
        with warnings.catch_warnings():
            warnings.simplefilter("ignore")
            v = S[(e[1], e[2], e[3])]
        if v is zero:
            v = sympy.S.Zero
        elif v is one:
            v = sympy.S.One
        elif isinstance(v, sympy.MatrixBase):
            v = v[0, 0]
        if not isinstance(v, NOF) or list(v.operators) != list(ops):
            v = NOF.from_expr(v.as_expr() if isinstance(v, NOF) else sympy.sympify(v), operators=ops)
        return v

    fwd_out = compute()
    fwd = {e: get(fwd_out, e) for e in elems}
    rev_out = compute()
    rev = {e: get(rev_out, e) for e in reversed(elems)}
    fresh = {e: get(compute(), e) for e in elems}
    objs, checks = [], []

    def add(x):
        objs.append(core_nof.nof_record(x, ops, modes, states, p))
        return len(objs)

    for e in elems:
        kf = add(fresh[e])
        for hist in (fwd, rev):
            checks.append(dict(kind="eq", z=add(hist[e]), x=kf, y=0, tree=0, k=0, margin=3))
    ses = dict(sid=sid, modes=[dict(kind=m["kind"], lo=m["lo"], hi=m["hi"]) for m in modes],
               states=[list(s_) for s_ in states], strides=[1], objs=objs, trees=[], checks=checks)
    meta = dict(kind="second-quantised-history", H0=str(H0), coupling=str(coupling), order=[list(e) for e in elems])
    return ses, meta
