"""Check C19: BlockSeries indexing = numpy semantics, exactly-once evaluation,
IndexError for infinite / negative orders, RuntimeError for self-reference.

  Mode A  MC_Indexing: TLC enumerates every index expression over the component
          menus and checks Indexing.tla against itself; MC_Engine for exactly-once.
  Mode B  the same menus drive real BlockSeries objects (histories of expressions
          on one series, so that cached cells are met again).
  Mode C  Trace_Indexing: TLC computes with Indexing!Verdict what each expression
          covers and returns, and validates the tracer's event stream against
          Engine.tla (Begin requires an absent cell; PendingHit -> RuntimeError).
As a cross-check of the TRANSCRIPTION the harness also compares Verdict's
python mirror with numpy's own dense[item]; a disagreement there is a spec bug
(machinery failure), never a violation.
"""

from __future__ import annotations

import copy
import itertools
import time

import numpy as np

from . import common, tracer
from .common import MachineryError

CFG = (common.SPEC / "Trace_Indexing.cfg").read_text()
MC_CFG = (common.SPEC / "MC_Indexing.cfg").read_text()
MC_ENGINE_CFG = (common.SPEC / "MC_Engine.cfg").read_text()


class Tag:
    """Element value that identifies the cell it belongs to."""

    __slots__ = ("idx",)

    def __init__(self, idx):
        self.idx = tuple(idx)

    def __repr__(self):
        return f"Tag{self.idx}"


# ---- components: abstract record + python object ---------------------------
def c_int(v):
    return dict(k="int", v=v, vs=[], lo=0, hi=0, st=1, lon=0, hin=0), v


def c_list(vs):
    return dict(k="list", v=0, vs=list(vs), lo=0, hi=0, st=1, lon=0, hin=0), list(vs)


def c_slice(lo, hi, st):
    rec = dict(k="slice", v=0, vs=[], lo=0 if lo is None else lo, hi=0 if hi is None else hi,
               st=1 if st is None else st, lon=int(lo is None), hin=int(hi is None))
    return rec, slice(lo, hi, st)


def menu_fin(n, rng=None):
    m = [c_int(v) for v in range(-(n + 1), n + 1)]
    m += [c_list([0]), c_list([n - 1, 0]), c_list([-1, 0, 0])]
    for lo in (None, 1, -1):
        for hi in (None, 2, -1):
            for st in (None, 1, 2):
                m.append(c_slice(lo, hi, st))
    return m


def menu_inf():
    m = [c_int(v) for v in (-1, 0, 1, 2)]
    m += [c_list([0, 1]), c_list([2, 0]), c_list([-1])]
    for lo in (None, 1, -1):
        for hi in (None, 0, 2, 3, -1):
            for st in (None, 1, 2):
                m.append(c_slice(lo, hi, st))
    return m


def all_exprs(fin, ninf):
    menus = [menu_fin(n) for n in fin] + [menu_inf() for _ in range(ninf)]
    for combo in itertools.product(*menus):
        if sum(1 for rec, _ in combo if rec["k"] == "list") <= 1:
            yield [rec for rec, _ in combo], tuple(obj for _, obj in combo)


# ---- python mirror of Indexing!Verdict's validity (only to cross-check numpy) --
def mirror_valid(fin, ninf, recs):
    nf = len(fin)
    if len(recs) != nf + ninf:
        return False
    for a, c in enumerate(recs):
        if a < nf:
            n = fin[a]
            vals = [c["v"]] if c["k"] == "int" else c["vs"] if c["k"] == "list" else []
            if any(not (-n <= v < n) for v in vals):
                return False
        else:
            if c["k"] == "int" and c["v"] < 0:
                return False
            if c["k"] == "list" and any(v < 0 for v in c["vs"]):
                return False
            if c["k"] == "slice" and (c["hin"] or c["hi"] < 0 or (not c["lon"] and c["lo"] < 0)):
                return False
    return True


def numpy_oracle(fin, ninf, recs, obj):
    """dense[item] by numpy itself on an array of index tuples (transcription cross-check)."""
    sizes = list(fin)
    for c in recs[len(fin):]:
        sizes.append(c["v"] + 1 if c["k"] == "int" else max(c["vs"] + [0]) + 1 if c["k"] == "list" else c["hi"])
    dense = np.empty(sizes, dtype=object)
    for idx in itertools.product(*[range(s) for s in sizes]):
        dense[idx] = idx
    got = dense[obj]
    if isinstance(got, tuple):
        return True, (), [got]
    return False, got.shape, list(got.reshape(-1))


def make_series(fin, ninf, zeros, ses_name="S", self_ref=None):
    from pymablock.series import BlockSeries, zero

    box = {}

    def ev(*index):
        if self_ref is not None:
            target = self_ref(index)
            if target is not None:
                box["s"][target]  # depend on another cell (possibly itself); own value stays self-identifying
        if tuple(index) in zeros:
            return zero
        return Tag(index)

    s = BlockSeries(eval=ev, shape=tuple(fin), n_infinite=ninf, name=ses_name)
    box["s"] = s
    return s


def drive(fin, ninf, zeros, exprs, sid, *, views=(), self_ref=None):
    """One session: a real series, a history of index expressions."""
    from pymablock.series import BlockSeries, zero

    ses = tracer.Session()
    with ses:
        s = make_series(fin, ninf, zeros, self_ref=self_ref)
        label = ses.label(s)
        for recs, obj in exprs:
            ses.emit("reqx", expr=recs)
            try:
                got = s[obj]
            except BaseException as e:  # noqa: BLE001
                if any(ev["t"] in ("begin",) for ev in ses.events[::-1][:1]):
                    pass
                last_req = max(i for i, ev in enumerate(ses.events) if ev["t"] == "reqx")
                evaluated = any(ev["t"] == "begin" for ev in ses.events[last_req:])
                ses.emit("raise" if evaluated else "refuse", exc=type(e).__name__, expr=recs,
                         pending=ses.pending_cells())
                ses.unwinding = False
                continue
            if isinstance(got, BlockSeries):
                ses.emit("retx", expr=recs, scalar=0, shape=[-1], elems=[], pending=ses.pending_cells())
                continue
            if isinstance(got, np.ndarray):  # masked array (subclass)
                data = np.ma.getdata(got).reshape(-1)
                mask = np.ma.getmaskarray(got).reshape(-1)
                elems = [dict(idx=[], masked=1) if (m or d is zero) else dict(idx=list(d.idx), masked=0)
                         for d, m in zip(data, mask)]
                ses.emit("retx", expr=recs, scalar=0, shape=list(got.shape), elems=elems,
                         pending=ses.pending_cells())
            else:
                elems = [dict(idx=[], masked=1) if got is zero else dict(idx=list(got.idx), masked=0)]
                ses.emit("retx", expr=recs, scalar=1, shape=[], elems=elems, pending=ses.pending_cells())
        for recs, obj, probes in views:
            if probes == "invalid":
                # numpy refuses this all-integer finite index (out of range): the library may refuse now or when an
                # element is read through the view, but must never hand out an element
                mark = len(ses.events)
                try:
                    view = s[obj]
                    v = view[tuple(0 for _ in range(ninf))]
                except BaseException as e:  # noqa: BLE001
                    del ses.events[mark:]
                    ses.emit("viewrefuse", exc=type(e).__name__, expr=recs)
                    continue
                del ses.events[mark:]
                ses.emit("viewvalue", expr=recs)
                continue
            try:
                view = s[obj]
            except BaseException as e:  # noqa: BLE001
                ses.emit("refuse", exc=type(e).__name__, expr=recs, pending=ses.pending_cells())
                continue
            ses.emit("view", expr=recs, shape=list(view.shape))
            for r, n in probes:
                # the view's own evaluation machinery is not the subject here: silence the tracer
                mark = len(ses.events)
                try:
                    v = view[tuple(r) + tuple(n)]
                except BaseException as e:  # noqa: BLE001
                    del ses.events[mark:]
                    ses.emit("probe", expr=recs, r=list(r), n=list(n), masked=-1, idx=[], exc=type(e).__name__)
                    continue
                del ses.events[mark:]
                if v is zero:
                    ses.emit("probe", expr=recs, r=list(r), n=list(n), masked=1, idx=[])
                else:
                    ses.emit("probe", expr=recs, r=list(r), n=list(n), masked=0, idx=list(v.idx))
    return finish(ses, sid, fin, ninf, zeros, label)


DEFAULTS = dict(s="", i=[], ord=[], tag="", exc="", had=0, pending=0, kind="", cells=[], vals=[], ref=0, k=0,
                v=[], fp=[], n=[], what="", expr=[], scalar=0, shape=[], elems=[], r=[], masked=0, idx=[])


def finish(ses, sid, fin, ninf, zeros, label):
    events = []
    for e in ses.events:
        if e["t"] == "preset":
            continue
        ev = dict(DEFAULTS)
        ev.update(e)
        ev["had"] = 1 if ev["had"] is True else 0
        events.append(ev)
    return dict(sid=sid, inputs=[], fp0=[], ev=events, fin=list(fin), ninf=ninf,
                zeros=[list(z) for z in sorted(zeros)], label=label)


def validate(sessions, workers=16, timeout=2400):
    res = common.run_tlc("Trace_Indexing", CFG, trace=sessions, workers=workers, timeout=timeout)
    acc = {t[1]: t for t in res.lines("ACCEPT")}
    rej = {t[1]: t for t in res.lines("REJECT")}
    missing = {s["sid"] for s in sessions} - set(acc) - set(rej)
    if missing or res.rc != 0:
        raise MachineryError(f"Trace_Indexing gave no verdict for {sorted(missing)[:5]} rc={res.rc}\n" + res.out[-2500:])
    return res, acc, rej


def transcription_crosscheck(fin, ninf, exprs):
    """Verdict's validity mirror vs numpy on the dense array: a disagreement is a SPEC bug."""
    n = 0
    for recs, obj in exprs:
        if not mirror_valid(fin, ninf, recs):
            continue
        try:
            numpy_oracle(fin, ninf, recs, obj)
        except Exception as e:  # noqa: BLE001
            raise MachineryError(f"spec says valid but numpy refuses {obj}: {e}") from e
        n += 1
    return n


def run(pid, tier, seed, replay=None):
    t0 = time.time()
    quick = tier == "quick"
    rng = common.rng_for(seed, pid, "indexing")
    stats = dict(states=0, transitions=0, traces=0)
    kf = common.load_known_findings()
    mode_a = []
    sessions, meta = [], {}
    sid = 0

    def add(kind, fin, ninf, zeros, exprs, **kw):
        nonlocal sid
        sid += 1
        s = drive(fin, ninf, zeros, exprs, sid, **kw)
        sessions.append(s)
        meta[sid] = dict(kind=kind, fin=list(fin), ninf=ninf, zeros=[list(z) for z in sorted(zeros)],
                         exprs=[str(o) for _, o in exprs], recs=[r for r, _ in exprs])

    if replay is not None:
        m = replay["session"]
        zeros = {tuple(z) for z in m["zeros"]}
        exprs = [(recs, to_obj(recs)) for recs in m["recs"]]
        add(m["kind"], m["fin"], m["ninf"], zeros, exprs)
    else:
        # ---- Mode A ---------------------------------------------------------
        for fin_def, ninf in (("Fin23", 1),) if quick else (("Fin23", 1), ("Fin2", 2)):
            cfg = MC_CFG.replace("CONSTANT Fin <- Fin23", f"CONSTANT Fin <- {fin_def}").replace(
                "CONSTANT NInf = 1", f"CONSTANT NInf = {ninf}")
            r = common.run_tlc("MC_Indexing", cfg, timeout=3000)
            if "No error has been found" not in r.out:
                raise MachineryError("MC_Indexing failed:\n" + r.out[-2500:])
            stats["states"] += r.distinct
            stats["transitions"] += r.generated
            mode_a.append(dict(spec="MC_Indexing", fin=fin_def, ninf=ninf, expressions=r.distinct, exhaustive=True))
        cfg = MC_ENGINE_CFG if not quick else MC_ENGINE_CFG.replace("MaxRequests = 3", "MaxRequests = 2")
        r = common.run_tlc("MC_Engine", cfg, timeout=3000)
        if "No error has been found" not in r.out:
            raise MachineryError("MC_Engine failed:\n" + r.out[-2500:])
        stats["states"] += r.distinct
        stats["transitions"] += r.generated
        mode_a.append(dict(spec="MC_Engine", distinct_states=r.distinct, exhaustive=True))
        # self-referential definitions: RuntimeError, never a value, never a hang (liveness under fairness)
        cfg = (common.SPEC / "MC_EngineCyclic.cfg").read_text()
        if not quick:
            cfg = cfg.replace("CONSTANT N = 1", "CONSTANT N = 2")
        r = common.run_tlc("MC_EngineCyclic", cfg, timeout=3000)
        if "No error has been found" not in r.out:
            raise MachineryError("MC_EngineCyclic failed:\n" + r.out[-2500:])
        stats["states"] += r.distinct
        stats["transitions"] += r.generated
        mode_a.append(dict(spec="MC_EngineCyclic", distinct_states=r.distinct, exhaustive=True,
                           invariants=["InvCycleNeverFinished", "InvCycleRaises", "InvRecursionError", "InvIdleClean"],
                           liveness="EveryRequestReturns under WF(Next)"))
        # ---- Mode B: expression histories on real series -----------------------
        shapes = [((2, 3), 1), ((2,), 2), ((), 1), ((2, 2), 1)]
        budget = 600 if quick else 12000
        per_session = 8
        for fin, ninf in shapes:
            exprs_all = list(all_exprs(fin, ninf))
            transcription_crosscheck(fin, ninf, rng.sample(exprs_all, min(len(exprs_all), 300)))
            share = budget // len(shapes)
            chosen = exprs_all if len(exprs_all) <= share else rng.sample(exprs_all, share)
            rng.shuffle(chosen)
            for a in range(0, len(chosen), per_session):
                cells = list(itertools.product(*[range(n) for n in fin], *[range(4)] * ninf))
                zeros = {c for c in cells if rng.random() < 0.25}
                add("history", fin, ninf, zeros, chosen[a:a + per_session])
        # ---- views ---------------------------------------------------------------
        for _ in range(10 if quick else 100):
            fin, ninf = rng.choice([((2, 3), 1), ((2, 2), 2)])
            cells = list(itertools.product(*[range(n) for n in fin], *[range(3)] * ninf))
            zeros = {c for c in cells if rng.random() < 0.25}
            views = []
            for _ in range(3):
                combo = [rng.choice(menu_fin(n)) for n in fin]
                if sum(1 for rec, _ in combo if rec["k"] == "list") > 1:
                    continue
                recs = [rec for rec, _ in combo]
                obj = tuple(o for _, o in combo)
                probes = []
                try:
                    shp = np.empty(fin)[obj].shape
                except Exception:  # noqa: BLE001
                    if all(rec["k"] == "int" for rec in recs):
                        views.append((recs, obj, "invalid"))
                    continue  # (other expressions numpy refuses: a view of nothing is outside the property)
                if all(x > 0 for x in shp):
                    for _ in range(4):
                        probes.append(([rng.randrange(x) for x in shp], [rng.randrange(3) for _ in range(ninf)]))
                views.append((recs, obj, probes))
            # fixed stratum: all-integer finite indices with ONE component out of range (n or -(n+1), and far out)
            for bad_pos in range(len(fin)):
                for bad in (fin[bad_pos], -(fin[bad_pos] + 1), fin[bad_pos] + rng.choice([1, 3])):
                    combo = [c_int(bad) if q == bad_pos else c_int(rng.randrange(-n_, n_)) for q, n_ in enumerate(fin)]
                    views.append(([rec for rec, _ in combo], tuple(o for _, o in combo), "invalid"))
            add("views", fin, ninf, zeros, [], views=views)
        # ---- self-referential definitions ------------------------------------------
        def cyc_same(index):
            return index if index[-1] == 2 else None

        def cyc_two(index):  # (0, n) -> (1, n) -> (0, n) for n == 1
            return (1 - index[0], index[1]) if index[-1] == 1 else None

        def down_then_self(index):  # n -> n-1 -> ... -> 0 fine; n == 3 refers to itself via n+0
            return (index[0], index[1] - 1) if 0 < index[1] < 3 else (index if index[1] == 3 else None)

        for fn, fin, ninf, idxs in (
            (cyc_same, (2,), 1, [(0, 1), (0, 2), (0, 2), (1, 0), (0, slice(None, 3))]),
            (cyc_two, (2,), 1, [(0, 0), (0, 1), (1, 1), (0, 0), (1, 2)]),
            (down_then_self, (2,), 1, [(0, 2), (1, 3), (1, 2), (0, 3), (1, 3)]),
        ):
            exprs = []
            for idx in idxs:
                combo = [c_int(v) if isinstance(v, int) else c_slice(v.start, v.stop, v.step) for v in idx]
                exprs.append(([rec for rec, _ in combo], tuple(o for _, o in combo)))
            add("self-reference", fin, ninf, set(), exprs, self_ref=fn)
        # ---- well-founded dependencies BETWEEN the elements of one multi-element request ---------
        # eval(0, n) looks up (1, n): inside series[:, 2] the later element (1, 2) is finished by the
        # nested look-up before the request's own loop reaches it -- it must not be evaluated again
        def cross_up(index):      # (0, n) -> (1, n)
            return (1, index[1]) if index[0] == 0 else None

        def cross_next(index):    # (i, n) -> (i, n + 1) for n < 3: later orders of the same slice
            return (index[0], index[1] + 1) if index[1] < 3 else None

        for fn, fin, ninf, idxs in (
            (cross_up, (2,), 1, [(slice(None), 2), (slice(None), slice(None, 4)), ([0, 1], 3), (1, 2), (slice(None), 2)]),
            (cross_up, (2,), 1, [(1, 1), (slice(None), 1), (slice(None), slice(None, 3)), (0, 2)]),
            (cross_next, (2,), 1, [(0, slice(None, 4)), (slice(None), slice(None, 3)), (1, slice(None, 4)), (0, 1)]),
        ):
            exprs = []
            for idx in idxs:
                combo = [c_int(v) if isinstance(v, int) else c_list(v) if isinstance(v, list)
                         else c_slice(v.start, v.stop, v.step) for v in idx]
                exprs.append(([rec for rec, _ in combo], tuple(o for _, o in combo)))
            add("cross-dependency", fin, ninf, set(), exprs, self_ref=fn)

    # ---- Mode C ------------------------------------------------------------------
    violations, known = [], []
    samples = []
    for b in range(0, len(sessions), 400):
        chunk = sessions[b:b + 400]
        res, acc, rej = validate(chunk)
        stats["states"] += res.distinct
        stats["transitions"] += res.generated
        stats["traces"] += len(chunk)
        for s in chunk:
            if s["sid"] in rej:
                t = rej[s["sid"]]
                ev = s["ev"][t[2] - 1]
                # the expression that is being processed when the session is rejected
                expr = next((e["expr"] for e in reversed(s["ev"][:t[2]]) if e["expr"]), [])
                v = dict(session=meta[s["sid"]], rejected_at_event=t[2], event=t[3], clause=t[4], expr=expr)
                k = match_known(v, kf)
                if k:
                    known.append(k)
                else:
                    violations.append(v)
    # self-reference sessions must end each cyclic request with RuntimeError
    for s in sessions:
        if meta[s["sid"]]["kind"] == "self-reference":
            raises = [e["exc"] for e in s["ev"] if e["t"] in ("raise", "refuse")]
            if not raises or any(x != "RuntimeError" for x in raises):
                violations.append(dict(session=meta[s["sid"]], clause="C19.self_reference_not_RuntimeError",
                                       observed=raises))
    if sessions:
        s0 = sessions[0]
        samples.append(dict(session=meta[s0["sid"]], events=len(s0["ev"])))
        samples.append(dict(session=meta[sessions[-1]["sid"]], events=len(sessions[-1]["ev"])))

    control = None
    if replay is None:
        control = negative_controls(sessions, meta)

    lines = [f"KNOWN-FINDING: property={pid} {k}" for k in sorted(set(known))]
    for i, v in enumerate(violations[:10]):
        path = common.write_replay(pid, f"{tier}_{seed}_{i}", dict(property=pid, **v))
        lines.append(f"VIOLATION property={pid} replay={path}")
    n_expr = sum(len(m["exprs"]) for m in meta.values())
    coverage = dict(
        states=max(stats["states"], 1), transitions=max(stats["transitions"], 1),
        traces_validated_against_impl=stats["traces"], samples=samples or [dict(note="none")],
        evaluations=n_expr, distinct_nontrivial=len({e for m in meta.values() for e in m["exprs"]}),
        rule="index expressions from the component menus (ints incl. negative/out-of-range, lists, slices with "
             "None/negative bounds, steps 1-2; at most one list), applied in histories of 8 to real series of shapes "
             "(2,3)+1, (2,)+2, ()+1, (2,2)+1 with 25% zero cells; distinct by expression text",
        mode_a=mode_a, negative_controls=control, known_findings_hit=sorted(set(known)), exhaustive=not quick,
    )
    common.write_evidence(pid, tier, seed, coverage, time.time() - t0, len(violations),
                          ["Indexing.tla transcribes numpy indexing for <=1 list per expression; cross-checked against numpy",
                           "tracer observes eval calls; cache hits are not observed"])
    return lines, len(violations)


def to_obj(recs):
    out = []
    for c in recs:
        if c["k"] == "int":
            out.append(c["v"])
        elif c["k"] == "list":
            out.append(list(c["vs"]))
        else:
            out.append(slice(None if c["lon"] else c["lo"], None if c["hin"] else c["hi"], c["st"]))
    return tuple(out)


def match_known(v, kf):
    for f in kf.get("findings", []):
        if f.get("property") != "C19":
            continue
        if f.get("matcher") == "negative_order_component":
            nf = len(v["session"]["fin"])
            for c in v["expr"][nf:]:
                neg = (c["k"] == "int" and c["v"] < 0) or (c["k"] == "list" and any(x < 0 for x in c["vs"])) or \
                      (c["k"] == "slice" and not c["hin"] and c["hi"] < 0)
                if neg:
                    return f["what"]
    return None


def negative_controls(sessions, meta):
    hist = next(s for s in sessions if meta[s["sid"]]["kind"] == "history"
                and any(e["t"] == "retx" and e["elems"] and not e["elems"][0]["masked"] for e in s["ev"]))
    cases = []
    s = copy.deepcopy(hist)
    e = next(e for e in s["ev"] if e["t"] == "retx" and e["elems"] and not e["elems"][0]["masked"])
    e["elems"][0]["idx"][-1] += 1
    s["sid"] = 1
    cases.append(("wrong-element", s))
    s = copy.deepcopy(hist)
    i = next(i for i, e in enumerate(s["ev"]) if e["t"] == "end")
    s["ev"].insert(i + 1, dict(s["ev"][i], t="begin", tag=""))
    s["ev"].insert(i + 2, dict(s["ev"][i]))
    s["sid"] = 2
    cases.append(("cell-evaluated-twice", s))
    res, acc, rej = validate([c[1] for c in cases], workers=4, timeout=600)
    out = []
    for name, s in cases:
        if s["sid"] not in rej:
            raise MachineryError(f"negative control '{name}' accepted")
        out.append(dict(control=name, rejected_with=rej[s["sid"]][4]))
    return out
