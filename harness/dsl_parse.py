"""An independent parser of pymablock's series mini-language (shares no code with
pymablock.algorithm_parsing): turns the source of an algorithm function into the
program-as-data that Dsl.tla interprets.

program = dict(series=[dict(name, start, herm, lines=[dict(cond, expr)])],
               products=[dict(name, factors, hermitian)], outputs=[...])
expr    = ["ref", name, adj] | ["neg", e] | ["sum", [e..]] | ["div", e, k] | ["call", f, e]
        | ["callseries", f, name] | ["zero"]
`zero if flag else e` DENOTES e: the flags are optimisations whose harmlessness is
part of the property.
"""

from __future__ import annotations

import ast
import inspect
import textwrap


def parse_expr(node):
    if isinstance(node, ast.Constant) and isinstance(node.value, str):
        return ["ref", node.value, 0]
    if isinstance(node, ast.Attribute) and node.attr == "adj":
        inner = parse_expr(node.value)
        if inner[0] != "ref":
            raise ValueError("adj of a non-series")
        return ["ref", inner[1], 1]
    if isinstance(node, ast.UnaryOp) and isinstance(node.op, ast.USub):
        return ["neg", parse_expr(node.operand)]
    if isinstance(node, ast.BinOp) and isinstance(node.op, ast.Add):
        return ["sum", [parse_expr(node.left), parse_expr(node.right)]]
    if isinstance(node, ast.BinOp) and isinstance(node.op, ast.Sub):
        return ["sum", [parse_expr(node.left), ["neg", parse_expr(node.right)]]]
    if isinstance(node, ast.BinOp) and isinstance(node.op, ast.Div):
        k = node.right
        if isinstance(k, ast.UnaryOp) and isinstance(k.op, ast.USub):
            return ["div", parse_expr(node.left), -int(k.operand.value)]
        return ["div", parse_expr(node.left), int(k.value)]
    if isinstance(node, ast.IfExp):
        # zero if flag else e   ==>   e
        return parse_expr(node.orelse)
    if isinstance(node, ast.Name) and node.id == "zero":
        return ["zero"]
    if isinstance(node, ast.Call) and isinstance(node.func, ast.Name):
        arg = node.args[0]
        if isinstance(arg, ast.Constant) and isinstance(arg.value, str):
            return ["callseries", node.func.id, arg.value]
        return ["call", node.func.id, parse_expr(arg)]
    raise ValueError(f"unsupported expression {ast.dump(node)}")


def parse_algorithm(func_or_source):
    src = func_or_source if isinstance(func_or_source, str) else inspect.getsource(func_or_source)
    tree = ast.parse(textwrap.dedent(src))
    fn = tree.body[0]
    series, products, outputs = [], [], []
    for node in fn.body:
        if isinstance(node, ast.With):
            name = node.items[0].context_expr.value
            if "@" in name:
                herm = any(isinstance(b, ast.Expr) and isinstance(b.value, ast.Name) and b.value.id == "hermitian"
                           for b in node.body)
                products.append(dict(name=name, factors=name.split(" @ "), hermitian=int(herm)))
                continue
            s = dict(name=name, start="none", herm="none", lines=[])
            for b in node.body:
                if isinstance(b, ast.Assign):
                    v = b.value.value
                    s["start"] = "zero" if v == 0 else "one" if v == 1 else f"input:{v}"
                elif isinstance(b, ast.Expr) and isinstance(b.value, ast.Name) and b.value.id in ("hermitian", "antihermitian"):
                    s["herm"] = b.value.id
                elif isinstance(b, ast.Expr):
                    s["lines"].append(dict(cond="default", expr=parse_expr(b.value)))
                elif isinstance(b, ast.If):
                    s["lines"].append(dict(cond=b.test.id, expr=parse_expr(b.body[0].value)))
            series.append(s)
        elif isinstance(node, ast.Return):
            v = node.value
            outputs = [v.value] if isinstance(v, ast.Constant) else [e.value for e in v.elts]
    return dict(series=series, products=products, outputs=outputs)
