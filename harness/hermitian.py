"""The Hermitian instance family: generation, running the real code, sessions.

An *instance* is ground truth built by the harness (exact Gaussian rationals):
block structure, unperturbed energies, perturbation terms at arbitrary
multi-orders, the public `fully_diagonalize` argument, and the concrete value
type used to present it to pymablock.  A *session* is the JSON record that
Trace_LeastAction.tla consumes: abstract public arguments + ground truth +
every returned element, reduced to GF(p^2).
"""

from __future__ import annotations

import itertools
import warnings
from fractions import Fraction

import numpy as np

from . import common
from .common import NonFinite, Regenerate, order_seq, red_frac


# ----------------------------------------------------------------------------
# exact Gaussian rationals as pairs of Fractions
# ----------------------------------------------------------------------------
def cz():
    return (Fraction(0), Fraction(0))


def rand_herm(rng, d, *, complex_=True, dens=(1,), amp=3, fill=0.8):
    """Random Hermitian d x d matrix of small Gaussian rationals."""
    m = [[cz() for _ in range(d)] for _ in range(d)]
    for i in range(d):
        for j in range(i, d):
            if rng.random() > fill:
                continue
            re_ = Fraction(rng.randint(-amp, amp), rng.choice(dens))
            im_ = Fraction(rng.randint(-amp, amp), rng.choice(dens)) if (complex_ and i != j) else Fraction(0)
            m[i][j] = (re_, im_)
            m[j][i] = (re_, -im_)
    return m


def rand_general(rng, d, *, complex_=True, dens=(1,), amp=3, fill=0.8):
    m = [[cz() for _ in range(d)] for _ in range(d)]
    for i in range(d):
        for j in range(d):
            if rng.random() > fill:
                continue
            re_ = Fraction(rng.randint(-amp, amp), rng.choice(dens))
            im_ = Fraction(rng.randint(-amp, amp), rng.choice(dens)) if complex_ else Fraction(0)
            m[i][j] = (re_, im_)
    return m


def is_zero_mat(m):
    return all(x == 0 and y == 0 for row in m for (x, y) in row)


def to_sympy(m):
    import sympy

    return sympy.Matrix(
        [[sympy.Rational(x.numerator, x.denominator) + sympy.I * sympy.Rational(y.numerator, y.denominator)
          for (x, y) in row] for row in m]
    )


def to_numpy(m, force_complex=False):
    is_c = force_complex or any(y != 0 for row in m for (_, y) in row)
    if is_c:
        return np.array([[complex(float(x), float(y)) for (x, y) in row] for row in m], dtype=complex)
    return np.array([[float(x) for (x, _) in row] for row in m], dtype=float)


def red_exact(m, p):
    return [[[red_frac(x, p), red_frac(y, p)] for (x, y) in row] for row in m]


def cmul(a, b):
    return (a[0] * b[0] - a[1] * b[1], a[0] * b[1] + a[1] * b[0])


def mmul(A, B):
    n, m, q = len(A), len(B), len(B[0])
    out = [[cz() for _ in range(q)] for _ in range(n)]
    for i in range(n):
        for j in range(q):
            re_ = Fraction(0)
            im_ = Fraction(0)
            for k in range(m):
                x = cmul(A[i][k], B[k][j])
                re_ += x[0]
                im_ += x[1]
            out[i][j] = (re_, im_)
    return out


def madj(A):
    return [[(A[j][i][0], -A[j][i][1]) for j in range(len(A))] for i in range(len(A[0]))]


def ident(d):
    return [[(Fraction(int(i == j)), Fraction(0)) for j in range(d)] for i in range(d)]


def unimodular_pair(rng, d, complex_):
    """Integer (Gaussian-integer) matrix M with det = unit, and its exact inverse."""
    M, Mi = ident(d), ident(d)
    for _ in range(2 * d):
        i, j = rng.sample(range(d), 2)
        c = (Fraction(rng.choice([-2, -1, 1, 2])), Fraction(0))
        if complex_ and rng.random() < 0.4:
            c = (Fraction(0), c[0])
        # row_i += c * row_j  on M ;  col_j -= c * col_i  on the inverse
        for q in range(d):
            x = cmul(c, M[j][q])
            M[i][q] = (M[i][q][0] + x[0], M[i][q][1] + x[1])
        for q in range(d):
            x = cmul(Mi[q][i], c)
            Mi[q][j] = (Mi[q][j][0] - x[0], Mi[q][j][1] - x[1])
    return M, Mi


def dyadic_unitary(rng, d, complex_):
    """A unitary with dyadic entries: (HAD4 or DFT4)/2 summed with an identity, permuted."""
    h = [[1, 1, 1, 1], [1, -1, 1, -1], [1, 1, -1, -1], [1, -1, -1, 1]]
    f = [[1, 1, 1, 1], [1, 1j, -1, -1j], [1, -1, 1, -1], [1, -1j, -1, 1j]]
    base = f if complex_ else h
    Q = ident(d)
    if d >= 4:
        rows = rng.sample(range(d), 4)
        for a, ra in enumerate(rows):
            for b, rb in enumerate(rows):
                z = complex(base[a][b]) / 2
                Q[ra][rb] = (Fraction(z.real), Fraction(z.imag))
    perm = list(range(d))
    rng.shuffle(perm)
    Q = [[Q[i][perm[j]] for j in range(d)] for i in range(d)]
    return Q, madj(Q)


def permute(m, order):
    return [[m[a][b] for b in order] for a in order]


# ----------------------------------------------------------------------------
# instance generation
# ----------------------------------------------------------------------------
def compositions(d, max_blocks=4):
    """All compositions of d into 1..max_blocks positive parts."""
    out = []
    for nb in range(1, min(d, max_blocks) + 1):
        for cuts in itertools.combinations(range(1, d), nb - 1):
            parts = [b - a for a, b in zip((0, *cuts), (*cuts, d))]
            out.append(parts)
    return out


def gen_instance(rng, *, d=None, k=None, N=None, vtype="sympy", fdkind=None,
                 sizes=None, complex_=None, shuffle=True, hermitian=True, complex_E=False, basis=None,
                 hermitian_terms=None, corner=None):
    """Draw one well-posed instance.  Dyadic energies for float value types."""
    dyadic = vtype in ("numpy", "sparse", "numpy_complex")
    if corner == "zero_block":
        # corner stratum: the LAST block sits at zero unperturbed energy (size >= 2) and an
        # earlier block of size >= 2 is non-degenerate
        d = d if d and d >= 4 else rng.choice([4, 5])
        # dyadic instances have only three levels {0, 1, 2}: two blocks
        sizes = rng.choice([[2, 2], [3, 2], [2, 3]] if dyadic else [[2, 2], [2, 1, 2], [3, 2], [2, 3]])
        sizes = [x for x in sizes]
        d = sum(sizes)
        shuffle = False
    d = d or rng.choice([2, 3, 3, 4, 4, 5])
    # energies of different blocks must differ; the dyadic family has 3 levels
    sizes = sizes or rng.choice([c for c in compositions(d) if len(c) <= ((4 if complex_E else 3) if dyadic else 4)])
    nb = len(sizes)
    k = k or rng.choice([1, 1, 2, 2, 3])
    if N is None:
        N = {1: 4, 2: 3, 3: 3}[k]
    if complex_ is None:
        complex_ = rng.random() < 0.6
    if vtype == "numpy_complex":
        complex_ = True
    # block id per state in the user's basis
    sub_idx = [b for b, s in enumerate(sizes) for _ in range(s)]
    if shuffle:
        rng.shuffle(sub_idx)
    # fully_diagonalize form
    kinds = ["none", "tuple", "dict"] if nb > 1 else ["none", "tuple", "dict", "array"]
    fdkind = fdkind or rng.choice(kinds)
    fd_blocks = []
    if fdkind == "tuple":
        fd_blocks = sorted(rng.sample(range(nb), rng.randint(1, nb)))
    elif fdkind == "dict":
        fd_blocks = sorted(rng.sample(range(nb), rng.randint(1, nb)))
    elif fdkind == "array":
        fd_blocks = [0]
    # energies: levels per state; degeneracies allowed where they end up kept
    if dyadic and complex_E:
        s = rng.choice([0, 1, 2])
        levels = [(Fraction(a * 2**s), Fraction(b * 2**s)) for a in (0, 1) for b in (0, 1)]
    elif dyadic:
        s = rng.choice([0, 1, 2])
        shift = rng.choice([0, 0, -4, 8])
        levels = [Fraction(j * 2**s + shift) for j in range(3)]
    elif complex_E:
        levels = [(Fraction(a), Fraction(b)) for a, b in rng.sample(
            [(x, y) for x in range(-3, 4) for y in (-2, 0, 1)], rng.randint(3, 7))]
    else:
        levels = [Fraction(v) for v in rng.sample(range(-4, 5), rng.randint(2, 6))]
    for _ in range(200):
        # disjoint, non-empty groups of levels per block => cross-block gaps never vanish
        pool = list(levels)
        rng.shuffle(pool)
        if len(pool) < nb:
            raise Regenerate("not enough energy levels for the blocks")
        cuts = sorted(rng.sample(range(1, len(pool)), nb - 1)) if nb > 1 else []
        groups = [pool[a:b] for a, b in zip([0, *cuts], [*cuts, len(pool)])]
        E = [rng.choice(groups[sub_idx[i]]) for i in range(d)]
        zero_e = (Fraction(0), Fraction(0)) if complex_E else Fraction(0)
        if rng.random() < 0.3 and all(zero_e not in g for g in groups):
            # a whole block at zero unperturbed energy (the library then stores the `zero`
            # sentinel for that block of H_0): only if no other block uses the level 0
            zb = nb - 1 if rng.random() < 0.6 else rng.randrange(nb)
            if not dyadic or all(abs(complex(*epair(x)) if isinstance(x, tuple) else x) in (1, 2, 4, 8, 16)
                                 for g in groups for x in g if g is not groups[zb]):
                E = [zero_e if sub_idx[i] == zb else E[i] for i in range(d)]
        masks = {}
        if fdkind in ("dict", "array"):
            for b in fd_blocks:
                sb = sizes[b]
                states = [i for i in range(d) if sub_idx[i] == b]
                msk = np.zeros((sb, sb), dtype=bool)
                for a in range(sb):
                    for c in range(a + 1, sb):
                        if E[states[a]] != E[states[c]] and rng.random() < 0.6:
                            msk[a, c] = msk[c, a] = True
                if not hermitian:
                    # asymmetric masks are legal in the non-Hermitian mode
                    for a in range(sb):
                        for c in range(sb):
                            if a != c and E[states[a]] != E[states[c]] and rng.random() < 0.3:
                                msk[a, c] = not msk[a, c]
                masks[b] = msk
        inst = dict(d=d, sizes=sizes, sub_idx=sub_idx, E=E, k=k, N=N, vtype=vtype,
                    fdkind=fdkind, fd_blocks=fd_blocks, masks=masks, hermitian=hermitian)
        if well_posed(inst):
            break
    else:
        raise Regenerate("no well-posed energy assignment found")
    # perturbation terms at arbitrary multi-orders (always some first-order term)
    ords = [n for n in order_seq(k, N) if sum(n) > 0]
    first = [n for n in ords if sum(n) == 1]
    chosen = set(first if rng.random() < 0.7 else rng.sample(first, max(1, len(first) - 1)))
    higher = [n for n in ords if sum(n) > 1]
    for n in higher:
        if rng.random() < (0.35 if sum(n) == 2 else 0.15):
            chosen.add(n)
    dens = (1, 2) if dyadic else (1, 1, 2, 3)
    terms = {}
    herm_terms = hermitian if hermitian_terms is None else hermitian_terms
    for n in sorted(chosen):
        gen = rand_herm if herm_terms else rand_general
        m = gen(rng, d, complex_=complex_, dens=dens, amp=2 if dyadic else 3,
                fill=rng.choice([0.5, 0.8, 1.0]))
        if not is_zero_mat(m):
            terms[n] = m
    if not terms:
        gen = rand_herm if herm_terms else rand_general
        terms[first[0]] = gen(rng, d, complex_=complex_, dens=dens, amp=2, fill=1.0)
    inst["terms"] = terms
    inst["complex"] = complex_
    if corner == "zero_block":
        first = [i for i in range(d) if sub_idx[i] == 0]
        last = [i for i in range(d) if sub_idx[i] == nb - 1]
        lv = [Fraction(1), Fraction(2)] if dyadic else [Fraction(1), Fraction(3)]
        E2 = list(inst["E"])
        for q, i in enumerate(first):
            E2[i] = lv[q % 2]
        for i in last:
            E2[i] = Fraction(0)
        for i in range(d):
            if sub_idx[i] not in (0, nb - 1):
                E2[i] = Fraction(4) if dyadic else Fraction(-2)
        inst["E"] = E2
        if inst["fdkind"] in ("dict", "array"):
            inst["fdkind"], inst["fd_blocks"], inst["masks"] = "none", [], {}
        if not well_posed(inst):
            raise Regenerate("corner instance ill posed")
    if corner == "selective_last":
        # corner stratum: a selective (dict) mask on the LAST block only, block size >= 3, a single
        # pair eliminated (kept elements not block structured); block 0 carries no mask
        b = nb - 1
        st = [i for i in range(d) if sub_idx[i] == b]
        if len(st) < 3 or nb < 2:
            raise Regenerate("last block too small")
        own = sorted({inst["E"][i] for i in st}, key=str)
        if len(own) < 2:
            raise Regenerate("last block has a single level")
        E2 = list(inst["E"])
        # make the first and last state of the block non-degenerate so that their pair may be eliminated
        E2[st[0]], E2[st[-1]] = own[0], own[1]
        inst["E"] = E2
        msk = np.zeros((len(st), len(st)), dtype=bool)
        msk[0, len(st) - 1] = msk[len(st) - 1, 0] = True
        inst["fdkind"], inst["fd_blocks"], inst["masks"] = "dict", [b], {b: msk}
        if not well_posed(inst):
            raise Regenerate("corner instance ill posed")
    if corner == "partial_tuple":
        # corner stratum: list-form fully_diagonalize naming ONE block while another (unlisted, kept
        # as a whole) block of size >= 2 has distinct unperturbed energies
        big = [b for b in range(nb) if sizes[b] >= 2]
        if nb < 2 or not big:
            raise Regenerate("needs two blocks, one of size 2")
        keepb = big[-1]
        st = [i for i in range(d) if sub_idx[i] == keepb]
        own = sorted({inst["E"][i] for i in st}, key=str)
        pool_ = [lv for lv in levels if all(lv != inst["E"][i] for i in range(d) if sub_idx[i] != keepb)]
        if len(pool_) < 2:
            raise Regenerate("not enough free levels")
        E2 = list(inst["E"])
        E2[st[0]], E2[st[1]] = pool_[0], pool_[1]
        inst["E"] = E2
        listed = [b for b in range(nb) if b != keepb]
        inst["fdkind"], inst["fd_blocks"], inst["masks"] = "tuple", [listed[0]], {}
        if not well_posed(inst):
            raise Regenerate("corner instance ill posed")
    if corner == "degenerate_fd":
        # corner stratum: a fully diagonalised block holding a degenerate level whose states are
        # NOT adjacent in the basis ordering (energies x, y, x)
        big = [b for b in range(nb) if sizes[b] >= 3]
        if not big:
            raise Regenerate("no block of size 3")
        b = big[0]
        st = [i for i in range(d) if sub_idx[i] == b]
        own = sorted({inst["E"][i] for i in st}, key=str)
        if len(own) < 2:
            raise Regenerate("block has a single level")
        E2 = list(inst["E"])
        E2[st[0]], E2[st[1]], E2[st[2]] = own[0], own[1], own[0]
        inst["E"] = E2
        inst["fdkind"], inst["fd_blocks"], inst["masks"] = "tuple", sorted({b, *(
            inst["fd_blocks"] if inst["fdkind"] == "tuple" else [])}), {}
        if not well_posed(inst):
            raise Regenerate("corner instance ill posed")
    if corner == "large_offset" or (corner is None and rng.random() < 0.1):
        add_offset(inst)
    if dyadic and not dyadic_gaps(inst):
        # float instances are compared EXACTLY: every eliminated gap must be +-2^k (or i times that);
        # corner strata re-assign levels after the random zero-block choice and could otherwise
        # produce a gap of 3 (seed 6 of the sweep: a false alarm of rounding, repaired here)
        raise Regenerate("non-dyadic eliminated gap")
    if all(epair(e) == (0, 0) for e in inst["E"]):
        # H_0 = 0 is refused up front by block_diagonalize ("The diagonal of the unperturbed Hamiltonian
        # may not be zero"): not an accepted input, so not in the scope of C01-C05 / C13-C15
        raise Regenerate("H_0 vanishes identically")
    inst["basis"] = None
    if basis == "pairs":
        M, Mi = unimodular_pair(rng, d, complex_)
        inst["basis"] = dict(kind="pairs", M=M, Mi=Mi)
    elif basis == "unitary":
        Q, Qd = dyadic_unitary(rng, d, complex_)
        inst["basis"] = dict(kind="unitary", M=Q, Mi=Qd)
    return inst


def block_order(inst):
    nb = len(inst["sizes"])
    return [i for b in range(nb) for i in range(inst["d"]) if inst["sub_idx"][i] == b]


def keep_pattern(inst):
    """Python mirror of BlockStruct!Keep, used ONLY to generate well-posed inputs."""
    d = inst["d"]
    order = block_order(inst)
    blk = [inst["sub_idx"][i] for i in order]
    E = [inst["E"][i] for i in order]
    nb = len(inst["sizes"])
    kind, fdb = inst["fdkind"], set(inst["fd_blocks"])
    if kind == "none" and nb == 1:
        kind, fdb = "tuple", {0}
    keep = np.zeros((d, d), dtype=bool)
    loc = []
    cnt = {}
    for b in blk:
        loc.append(cnt.get(b, 0))
        cnt[b] = cnt.get(b, 0) + 1
    for i in range(d):
        for j in range(d):
            if blk[i] != blk[j]:
                continue
            b = blk[i]
            if kind == "tuple" and b in fdb:
                keep[i, j] = E[i] == E[j]
            elif kind in ("dict", "array") and b in fdb:
                keep[i, j] = not inst["masks"][b][loc[i], loc[j]]
            else:
                keep[i, j] = True
    return keep, E


def add_offset(inst, c=2 ** 20):
    """Stratum "large offset": the whole spectrum far from zero (2^20 >> level spacings), as for a
    Hamiltonian whose lab-frame energy was not subtracted; exact for floats (2^20 + k/2^m)."""
    inst["E"] = [(epair(e)[0] + c, epair(e)[1]) if isinstance(e, tuple) else e + c for e in inst["E"]]
    inst["large_offset"] = True


def add_jitter(inst):
    """Stratum "rounding-level splitting": one partner of a degenerate pair inside a fully diagonalised block
    is PRESENTED with its level raised by 2^-50 (8.9e-16, the size of rounding after a change of basis; the
    library's tolerance for equal levels is 1e-12).  The abstract instance -- and the truth -- keeps the pair
    exactly degenerate; float outputs deviate by rounding-size amounts and are snapped (alpha_snap)."""
    if (inst.get("basis") or inst.get("large_offset") or inst.get("int_dtype") or inst.get("h0_extra")
            or inst["vtype"] not in ("numpy", "numpy_complex", "sparse") or not inst.get("hermitian", True)):
        return False
    E = [epair(e) for e in inst["E"]]
    blk = inst["sub_idx"]
    fdb = set(inst["fd_blocks"]) if inst["fdkind"] == "tuple" else (
        {0} if len(inst["sizes"]) == 1 and inst["fdkind"] == "none" else set())
    for i in range(inst["d"]):
        for j in range(i + 1, inst["d"]):
            if blk[i] == blk[j] and blk[i] in fdb and E[i] == E[j] and E[i][1] == 0 and abs(E[i][0]) < 8:
                inst["jitter"] = j
                return True
    return False


def shrink_parameter(inst, bits=30):
    """Stratum "tiny term": the LAST perturbation parameter is rescaled by 2^-bits (its first-order term has
    entries of about 1e-9: far above the library's zero tolerance 1e-12, far below numpy's default 1e-8).
    Exact for floats: every multi-order is homogeneous in the scale.  Only when the parameter occurs to the
    first power (a second-power term would be 2^-60 < atol and rightly counts as zero)."""
    j = inst["k"] - 1
    if any(n[j] > 1 for n in inst["terms"]) or not any(n[j] == 1 for n in inst["terms"]):
        return False
    sc = Fraction(1, 2 ** bits)
    inst["terms"] = {n: ([[(x * sc, y * sc) for (x, y) in row] for row in m] if n[j] == 1 else m)
                     for n, m in inst["terms"].items()}
    inst["tiny_parameter"] = j
    return True


def dyadic_gaps(inst):
    """Every eliminated pair has an energy difference whose real and imaginary parts are 0 or +-2^k."""
    keep, E = keep_pattern(inst)
    d = inst["d"]

    def pow2(x):
        x = abs(Fraction(x))
        if x == 0:
            return True
        n, m = x.numerator, x.denominator
        return (n & (n - 1)) == 0 and (m & (m - 1)) == 0

    for i in range(d):
        for j in range(d):
            if not keep[i, j]:
                a, b = epair(E[i]), epair(E[j])
                re, im = a[0] - b[0], a[1] - b[1]
                if not (pow2(re) and pow2(im)) or (re != 0 and im != 0 and abs(re) != abs(im)):
                    return False
    return True


def well_posed(inst):
    keep, E = keep_pattern(inst)
    d = inst["d"]
    for i in range(d):
        for j in range(d):
            if not keep[i, j] and E[i] == E[j]:
                return False
    if inst.get("hermitian", True) and not (keep == keep.T).all():
        return False
    return True


# ----------------------------------------------------------------------------
# presenting an instance to pymablock and collecting the outputs
# ----------------------------------------------------------------------------
def epair(e):
    return e if isinstance(e, tuple) else (e, Fraction(0))


def h0_user(inst):
    d = inst["d"]
    h = [[epair(inst["E"][i]) if i == j else cz() for j in range(d)] for i in range(d)]
    extra = inst.get("h0_extra")
    if extra:
        h = [[(h[i][j][0] + extra[i][j][0], h[i][j][1] + extra[i][j][1]) for j in range(d)] for i in range(d)]
    return h


def int_cast(a, inst):
    """Integer-valued real terms in integer dtype (what `np.diag([0, 2, 4])` gives a user)."""
    if inst.get("int_dtype") and a.dtype == float and np.all(a == np.round(a)):
        return a.astype(np.int64)
    return a


def concrete_hamiltonian(inst):
    """Build the dict {order: value} in the requested concrete value type."""
    from scipy import sparse

    vt = inst["vtype"]
    k = inst["k"]
    allterms = {(0,) * k: h0_user(inst), **inst["terms"]}
    if inst.get("basis"):
        M, Mi = inst["basis"]["M"], inst["basis"]["Mi"]
        allterms = {n: mmul(M, mmul(m, Mi)) for n, m in allterms.items()}
    out = {}
    symbolic = vt == "sympy" and inst.get("symbolic_consts") and not inst.get("basis") and not inst.get("h0_extra")
    if symbolic:
        import sympy

        # SYMBOLIC constants: every distinct unperturbed level is a real symbol (equal levels share it), and
        # the first perturbation term carries a symbolic coupling g.  The truth stays the numeric instance;
        # returned expressions are evaluated at the same values before they are reduced (inst["_esubs"]).
        esubs = {}
        levels = sorted({epair(e) for e in inst["E"]}, key=str)
        lsym = {}
        for q, lv in enumerate(levels):
            if lv[1] != 0:
                symbolic = False
                break
            sy = sympy.Symbol(f"e{q}", real=True)
            lsym[lv] = sy
            esubs[sy] = sympy.Rational(lv[0].numerator, lv[0].denominator)
    if symbolic:
        gval = Fraction(3, 2)
        g = sympy.Symbol("g", real=True)
        esubs[g] = sympy.Rational(3, 2)
        first = sorted(n for n in allterms if sum(n) > 0)[0]
        inst["_esubs"] = esubs
    for n, m in allterms.items():
        if symbolic and n == (0,) * k:
            out[n] = sympy.diag(*[lsym[epair(e)] for e in inst["E"]])
        elif symbolic and n == first:
            out[n] = to_sympy([[(x / gval, y / gval) for (x, y) in row] for row in m]) * g
        elif vt == "sympy":
            out[n] = to_sympy(m)
        elif vt == "numpy":
            out[n] = int_cast(to_numpy(m), inst)
        elif vt == "numpy_complex":
            out[n] = to_numpy(m, force_complex=True)
        elif vt == "sparse":
            out[n] = sparse.csr_array(int_cast(to_numpy(m), inst))
        else:
            raise ValueError(vt)
    jit = inst.get("jitter")
    if jit is not None and vt in ("numpy", "numpy_complex", "sparse") and not inst.get("basis"):
        z = (0,) * k
        h = out[z].toarray() if vt == "sparse" else np.array(out[z])
        h = h.astype(complex if np.iscomplexobj(h) else float)
        h[jit, jit] += 2.0 ** -50
        out[z] = sparse.csr_array(h) if vt == "sparse" else h
    return out


def fd_argument(inst):
    kind = inst["fdkind"]
    if kind == "none":
        return ()
    if kind == "tuple":
        return tuple(inst["fd_blocks"])
    if kind == "dict":
        return {b: inst["masks"][b].copy() for b in inst["fd_blocks"]}
    if kind == "array":
        return inst["masks"][0].copy()
    raise ValueError(kind)


def designation(inst):
    """subspace_indices, or the eigenvector (pairs) of the rotated basis."""
    if not inst.get("basis"):
        return dict(subspace_indices=list(inst["sub_idx"]))
    M, Mi = inst["basis"]["M"], inst["basis"]["Mi"]
    L = madj(Mi)
    nb = len(inst["sizes"])
    vecs = []
    for b in range(nb):
        cols = [i for i in range(inst["d"]) if inst["sub_idx"][i] == b]
        Rb = [[M[r][c] for c in cols] for r in range(inst["d"])]
        Lb = [[L[r][c] for c in cols] for r in range(inst["d"])]
        conv = to_sympy if inst["vtype"] == "sympy" else (lambda m: to_numpy(m, force_complex=inst.get("complex", False)))
        if inst["basis"]["kind"] == "pairs":
            vecs.append((conv(Rb), conv(Lb)))
        else:
            vecs.append(conv(Rb))
    return dict(subspace_eigenvectors=tuple(vecs))


def symbol_names(inst):
    names = inst.get("symnames")
    if names and len(names) >= inst["k"]:
        return list(names[: inst["k"]])
    return [f"a{i}" for i in range(inst["k"])]


def present(inst):
    """The Hamiltonian in the container format inst['format'] (default dict of order tuples).

    Returns (hamiltonian, extra_kwargs, param_map) where param_map[j] is the index of
    the instance's parameter that the library will call parameter j."""
    import sympy

    fmt = inst.get("format", "dict")
    H = concrete_hamiltonian(inst)
    k = inst["k"]
    ident_map = list(range(k))
    first_only = all(sum(n) <= 1 for n in H)
    if fmt == "analytic":
        total, syms = inst["_analytic"]
        return total, dict(symbols=syms), ident_map
    if fmt in ("blocklist", "blockdict", "blockseries2") and not inst.get("basis"):
        # pre-blocked containers: every term is a nested list [[H_00, H_01, ..], ..] of its blocks
        # (states of block b in their original order); no subspace designation is passed
        nb = len(inst["sizes"])
        idx = [[i for i in range(inst["d"]) if inst["sub_idx"][i] == b] for b in range(nb)]

        def blocks(v):
            if isinstance(v, sympy.MatrixBase):
                return [[v.extract(idx[i], idx[j]) for j in range(nb)] for i in range(nb)]
            if hasattr(v, "toarray"):
                vv = v.tocsr()
                return [[vv[idx[i], :][:, idx[j]] for j in range(nb)] for i in range(nb)]
            return [[v[np.ix_(idx[i], idx[j])] for j in range(nb)] for i in range(nb)]

        pre = dict(__preblocked__=True)
        if fmt == "blocklist" and first_only:
            zero_like = H[(0,) * k] * 0
            return [blocks(H[(0,) * k])] + [blocks(H.get(tuple(int(i == j) for i in range(k)), zero_like))
                                            for j in range(k)], pre, ident_map
        if fmt == "blockseries2":
            from pymablock.series import BlockSeries

            data = {}
            for n, v in H.items():
                for i, row in enumerate(blocks(v)):
                    for j, blk in enumerate(row):
                        # a BlockSeries is taken as it is: vanishing blocks are simply absent (an explicit
                        # zero ARRAY as an off-diagonal H_0 block is refused with ValueError)
                        if isinstance(blk, sympy.MatrixBase):
                            present_ = blk.is_zero_matrix is not True
                        elif hasattr(blk, "nnz"):
                            present_ = (blk != 0).nnz > 0
                        else:
                            present_ = bool(np.any(blk != 0))
                        if present_:
                            data[(i, j, *n)] = blk
            return BlockSeries(data=data, shape=(nb, nb), n_infinite=k), pre, ident_map
        return {n: blocks(v) for n, v in H.items()}, pre, ident_map
    if fmt == "list" and first_only:
        zero_like = H[(0,) * k] * 0
        return [H[(0,) * k]] + [H.get(tuple(int(i == j) for i in range(k)), zero_like) for j in range(k)], {}, ident_map
    if fmt == "blockseries":
        from pymablock.series import BlockSeries

        return BlockSeries(data=dict(H), shape=(), n_infinite=k), {}, ident_map
    if fmt in ("symkeys", "sympy_matrix") and len({j for n in H for j in range(k) if n[j]}) < k:
        # symkeys: the library infers the parameters from the keys, a parameter without any term would
        # silently not exist; sympy_matrix: "Not all perturbative parameters are in `hamiltonian`" (ValueError
        # up front).  Either way not an input the relations are about.
        raise Regenerate("a parameter has no term")
    if fmt == "symkeys":
        if False:
            # the library infers the parameters from the keys: a parameter without any term would
            # silently not exist (fewer order indices) -- not an input the relations are about
            raise Regenerate("a parameter has no term: monomial keys cannot express it")
        names = symbol_names(inst)
        syms = [sympy.Symbol(nm) for nm in names]
        out = {}
        for n, v in H.items():
            key = sympy.Integer(1)
            for s_, e in zip(syms, n):
                key = key * s_**e
            out[key] = v
        order = sorted(range(k), key=lambda i: names[i])  # the library sorts symbols by name
        return out, {}, order
    if fmt == "sympy_matrix" and inst["vtype"] == "sympy":
        names = symbol_names(inst)
        syms = [sympy.Symbol(nm, real=True) for nm in names]
        total = sympy.zeros(inst["d"], inst["d"])
        for n, v in H.items():
            mono = sympy.Integer(1)
            for s_, e in zip(syms, n):
                mono = mono * s_**e
            total = total + v * mono
        return sympy.Matrix(total), dict(symbols=syms), ident_map
    return H, {}, ident_map


def run_block_diagonalize(inst, **kwargs):
    import pymablock

    H, extra, pmap = present(inst)
    inst["_param_map"] = pmap
    des = {} if extra.pop("__preblocked__", False) else designation(inst)
    with warnings.catch_warnings():
        warnings.simplefilter("ignore")
        outs = pymablock.block_diagonalize(
            H,
            fully_diagonalize=fd_argument(inst),
            hermitian=inst.get("hermitian", True),
            **des,
            **extra,
            **kwargs,
        )
    if inst.get("format") in ("symkeys", "sympy_matrix"):
        # the parameter order is READ from the returned series, never assumed
        try:
            libnames = [str(x) for x in outs[0].dimension_names]
            mine = symbol_names(inst)
            if sorted(libnames) == sorted(mine):
                inst["_param_map"] = [mine.index(nm) for nm in libnames]
        except Exception:  # noqa: BLE001
            pass
    return outs


def lib_order(inst, n):
    """Multi-order of the instance -> index tuple in the library's parameter order."""
    pmap = inst.get("_param_map") or list(range(inst["k"]))
    return tuple(n[pmap[j]] for j in range(inst["k"]))


SNAP_BITS = 40
# set per instance (make_session / the relation runner): True for the "tiny term" stratum, whose exact outputs are
# small numerators over 2^60 ...; False otherwise (then a value like 2^-48 is rounding noise and snaps to 0)
EXACT_TINY = False
JITTERED = False


def red_value(x, p):
    """alpha for one scalar output; floats with huge denominators are snapped."""
    if isinstance(x, (float, np.floating, complex, np.complexfloating)):
        parts = (x.real, x.imag) if isinstance(x, (complex, np.complexfloating)) else (x, 0.0)
        res = []
        for v in parts:
            v = float(v)
            if not np.isfinite(v):
                raise NonFinite(repr(x))
            q = Fraction(v)
            if JITTERED and q.denominator.bit_length() > 32:
                # "rounding-level splitting" instances: outputs deviate from the exact ones by the splitting
                # times an amplification (1e-13 ... 1e-12): coarser grid 2^-32
                s = Fraction(round(v * 2**32), 2**32)
                if abs(float(s) - v) > 1e-10 * max(1.0, abs(v)):
                    raise NotRepresentable(repr(x))
                q = s
            elif q.denominator.bit_length() > SNAP_BITS and not (
                    EXACT_TINY and abs(q.numerator).bit_length() <= SNAP_BITS):
                # (a small numerator over a large power of two is an EXACT tiny dyadic -- the "tiny term"
                # stratum produces 2^-60 ... -- and is reduced as it stands)
                # alpha_snap: rounding happened; accept the nearest dyadic with a
                # bounded denominator only if it is within rounding distance.
                s = Fraction(round(v * 2**SNAP_BITS), 2**SNAP_BITS)
                if abs(float(s) - v) > 1e-9 * max(1.0, abs(v)):
                    raise NotRepresentable(repr(x))
                q = s
            res.append(red_frac(q, p))
        return res
    return common.red_number(x, p)


class NotRepresentable(Exception):
    """A float output is not within rounding distance of the exact ring."""


def block_to_res(val, shape, p, subs=None):
    """One returned element -> residues, handling the zero / one sentinels."""
    import sympy
    from pymablock.series import one, zero
    from scipy import sparse

    r, c = shape
    if val is zero:
        return common.zeros_res(r, c), "zero"
    if val is one:
        assert r == c
        return common.eye_res(r), "one"
    if sparse.issparse(val):
        val = val.toarray()
    if isinstance(val, sympy.MatrixBase):
        if val.shape != (r, c):
            raise ValueError(f"block shape {val.shape} != {(r, c)}")
        if subs:
            val = val.subs(subs)
        return [[common.red_sympy(val[i, j], p) for j in range(c)] for i in range(r)], "val"
    val = np.asarray(val)
    if val.shape != (r, c):
        raise ValueError(f"block shape {val.shape} != {(r, c)}")
    return [[red_value(val[i, j], p) for j in range(c)] for i in range(r)], "val"


def assemble(series, n, sizes, p, subs=None):
    """Dense d x d residue matrix of all blocks of `series` at multi-order n."""
    nb = len(sizes)
    offs = np.concatenate(([0], np.cumsum(sizes)))
    d = int(offs[-1])
    full = common.zeros_res(d, d)
    tags = {}
    for i in range(nb):
        for j in range(nb):
            val = series[(i, j, *n)]
            blk, tag = block_to_res(val, (sizes[i], sizes[j]), p, subs)
            tags[(i, j)] = tag
            for a in range(sizes[i]):
                for b in range(sizes[j]):
                    full[offs[i] + a][offs[j] + b] = blk[a][b]
    return full, tags


def struct_record(inst, p):
    """The abstract public arguments, as BlockStruct.tla reads them."""
    order = block_order(inst)
    nb = len(inst["sizes"])
    elim = []
    for b in range(nb):
        if inst["fdkind"] in ("dict", "array") and b in inst["fd_blocks"]:
            elim.append(inst["masks"][b].astype(int).tolist())
        else:
            elim.append([])
    return dict(
        d=inst["d"],
        block=[inst["sub_idx"][i] for i in order],
        E=[[red_frac(epair(inst["E"][i])[0], p), red_frac(epair(inst["E"][i])[1], p)] for i in order],
        fdkind="dict" if inst["fdkind"] == "array" else inst["fdkind"],
        fdset=list(inst["fd_blocks"]),
        elim=elim,
    )


def truth_series(inst, p):
    """Ground-truth H in the block-ordered basis for every order of the sequence."""
    order = block_order(inst)
    k, N, d = inst["k"], inst["N"], inst["d"]
    allterms = {(0,) * k: h0_user(inst), **inst["terms"]}
    out = []
    for n in order_seq(k, N):
        if n in allterms:
            out.append(red_exact(permute(allterms[n], order), p))
        else:
            out.append(common.zeros_res(d, d))
    return out


def make_session(inst, sid, p, outputs=None, spectrum=1):
    """Run the real code on `inst` and build the session record."""
    if outputs is None:
        outputs = run_block_diagonalize(inst)
    global EXACT_TINY, JITTERED
    Ht, U, Ud = outputs
    sizes = inst["sizes"]
    k, N = inst["k"], inst["N"]
    ords = order_seq(k, N)
    out = []
    EXACT_TINY = inst.get("tiny_parameter") is not None
    JITTERED = inst.get("jitter") is not None
    for n in ords:
        ln = lib_order(inst, n)
        sb = inst.get("_esubs")
        ht, _ = assemble(Ht, ln, sizes, p, sb)
        u, _ = assemble(U, ln, sizes, p, sb)
        ud, _ = assemble(Ud, ln, sizes, p, sb)
        out.append({"Ht": ht, "U": u, "Ud": ud})
    sess = dict(sid=sid, k=k, N=N, ords=[list(n) for n in ords],
                H=truth_series(inst, p), out=out, spectrum=spectrum,
                **struct_record(inst, p))
    return sess


def describe(inst):
    """Compact, JSON-able description of an instance (for samples / replay)."""
    def f(q):
        return str(q)

    return dict(
        d=inst["d"], sizes=inst["sizes"], sub_idx=inst["sub_idx"],
        E=[[f(epair(e)[0]), f(epair(e)[1])] for e in inst["E"]],
        basis=None if not inst.get("basis") else dict(
            kind=inst["basis"]["kind"],
            M=[[[f(x), f(y)] for (x, y) in row] for row in inst["basis"]["M"]],
            Mi=[[[f(x), f(y)] for (x, y) in row] for row in inst["basis"]["Mi"]]),
        k=inst["k"], N=inst["N"], vtype=inst["vtype"], fdkind=inst["fdkind"],
        fd_blocks=inst["fd_blocks"], hermitian=inst.get("hermitian", True),
        format=inst.get("format", "dict"), symnames=inst.get("symnames"), int_dtype=bool(inst.get("int_dtype")),
        symbolic_consts=bool(inst.get("symbolic_consts")), jitter=inst.get("jitter"),
        tiny_parameter=inst.get("tiny_parameter"),
        masks={str(b): m.astype(int).tolist() for b, m in inst["masks"].items()},
        terms={",".join(map(str, n)): [[[f(x), f(y)] for (x, y) in row] for row in m]
               for n, m in inst["terms"].items()},
    )


def from_description(desc):
    def g(s):
        return Fraction(s)

    return dict(
        d=desc["d"], sizes=desc["sizes"], sub_idx=desc["sub_idx"],
        E=[(g(e[0]), g(e[1])) if isinstance(e, list) else g(e) for e in desc["E"]],
        basis=None if not desc.get("basis") else dict(
            kind=desc["basis"]["kind"],
            M=[[(g(x), g(y)) for (x, y) in row] for row in desc["basis"]["M"]],
            Mi=[[(g(x), g(y)) for (x, y) in row] for row in desc["basis"]["Mi"]]),
        k=desc["k"], N=desc["N"], vtype=desc["vtype"], fdkind=desc["fdkind"],
        fd_blocks=desc["fd_blocks"], hermitian=desc.get("hermitian", True),
        format=desc.get("format", "dict"), symnames=desc.get("symnames"), int_dtype=desc.get("int_dtype", False),
        symbolic_consts=desc.get("symbolic_consts", False), jitter=desc.get("jitter"),
        tiny_parameter=desc.get("tiny_parameter"),
        masks={int(b): np.array(m, dtype=bool) for b, m in desc["masks"].items()},
        terms={tuple(int(x) for x in n.split(",")): [[(g(x), g(y)) for (x, y) in row] for row in m]
               for n, m in desc["terms"].items()},
        complex=True,
    )
