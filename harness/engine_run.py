"""Driving the real engine along schedules and recording Engine.tla traces.

A *schedule* is a list of user requests on the three outputs of
block_diagonalize (scalar or slice index expressions), optionally with a fault
plan (callback invocation number -> exception class).  The Hamiltonian is
presented as a lazily defined BlockSeries (`Huser`) whose eval is the user
callback; an optional custom solve_sylvester is the second callback.
"""

from __future__ import annotations

import itertools
import warnings
from fractions import Fraction

import numpy as np

from . import common, hermitian, tracer
from .common import order_seq

EXC = {"Exception": Exception, "RuntimeError": RuntimeError, "KeyboardInterrupt": KeyboardInterrupt,
       "ValueError": ValueError, "ZeroDivisionError": ZeroDivisionError}

OUT_NAMES = ("Ht", "U", "Ud")


class Injector:
    """Counts callback invocations and raises at the planned ones."""

    def __init__(self, plan=None, ses=None):
        self.plan = dict(plan or {})
        self.count = 0
        self.ses = ses
        self.log = []

    def hit(self, what):
        self.count += 1
        self.log.append(what)
        cls = self.plan.get(self.count)
        if cls is not None:
            if self.ses is not None:
                self.ses.unwinding = True
                self.ses.emit("inject", exc=cls, n=self.count, what=str(what))
            raise EXC[cls](f"injected fault #{self.count} in {what}")


def user_series(inst, inj, poison=(), copies=None, symbolic=False):
    """The Hamiltonian as a lazily defined scalar BlockSeries (user callback)."""
    from pymablock.series import BlockSeries, zero
    from scipy import sparse

    k = inst["k"]
    terms = {(0,) * k: hermitian.h0_user(inst), **inst["terms"]}
    concrete = {}
    if symbolic:
        # the same lazily defined series with sympy (rational) matrices: the symbolic code path of
        # block_diagonalize (operator detection, symbolic masks and Sylvester solver)
        concrete = {n: hermitian.to_sympy(m) for n, m in terms.items()}
        terms = {}
    for n, m in terms.items():
        a = hermitian.to_numpy(m, force_complex=inst["vtype"] == "numpy_complex")
        if inst["vtype"] == "sparse" or n == (0,) * k:
            a = sparse.csr_array(a)
        concrete[n] = a
    if copies is not None:
        copies.update({n: (a.toarray() if sparse.issparse(a) else a).copy() for n, a in concrete.items()})

    def ev(*index):
        inj.hit(("H", index))
        if index in poison:
            raise AssertionError(f"poisoned Hamiltonian term {index} was evaluated")
        return concrete.get(tuple(index), zero)

    return BlockSeries(eval=ev, shape=(), n_infinite=k, name="Huser"), concrete


class MatElem:
    """A user-defined algebra element (a matrix block behind an opaque interface): its
    product is the third user callback of C11 ("the multiplication of elements")."""

    __slots__ = ("a", "inj")

    def __init__(self, a, inj):
        self.a = a
        self.inj = inj

    def __matmul__(self, o):
        self.inj.hit(("mul", self.a.shape, getattr(o, "a", np.empty(())).shape))
        if not isinstance(o, MatElem):
            return NotImplemented
        return MatElem(self.a @ o.a, self.inj)

    def __add__(self, o):
        from pymablock.series import zero

        if o is zero:
            return self
        if not isinstance(o, MatElem):
            return NotImplemented
        return MatElem(self.a + o.a, self.inj)

    __radd__ = __add__

    def __sub__(self, o):
        from pymablock.series import zero

        if o is zero:
            return self
        if not isinstance(o, MatElem):
            return NotImplemented
        return MatElem(self.a - o.a, self.inj)

    def __neg__(self):
        return MatElem(-self.a, self.inj)

    def __truediv__(self, c):
        return MatElem(self.a / c, self.inj)

    def __mul__(self, c):
        return MatElem(self.a * c, self.inj)

    __rmul__ = __mul__

    def adjoint(self):
        return MatElem(self.a.conj().T, self.inj)


def unwrap(v):
    return v.a if isinstance(v, MatElem) else v


def algebra_series(inst, inj, poison=(), copies=None, plain=False):
    """The Hamiltonian as a lazily defined BlockSeries of opaque algebra elements, already
    split into blocks: user callbacks = eval of a block term and the element product."""
    from pymablock.series import BlockSeries, zero

    k = inst["k"]
    order = hermitian.block_order(inst)
    nb = len(inst["sizes"])
    offs = np.concatenate(([0], np.cumsum(inst["sizes"])))
    idx = [order[offs[b]:offs[b + 1]] for b in range(nb)]
    terms = {(0,) * k: hermitian.h0_user(inst), **inst["terms"]}
    concrete = {}
    for n, m in terms.items():
        a = hermitian.to_numpy(m, force_complex=inst["vtype"] == "numpy_complex")
        for i in range(nb):
            for j in range(nb):
                blk = np.array(a[np.ix_(idx[i], idx[j])])
                if n == (0,) * k and i != j:
                    if np.any(blk):
                        raise common.MachineryError("instance with block-off-diagonal H0 given to algebra_series")
                    continue
                if np.any(blk):
                    concrete[(i, j, *n)] = blk
    if copies is not None:
        copies.update({n: a.copy() for n, a in concrete.items()})

    def ev(*index):
        inj.hit(("H", index))
        if tuple(index[2:]) in poison:
            raise AssertionError(f"poisoned Hamiltonian term {index} was evaluated")
        blk = concrete.get(tuple(index))
        if plain:
            # "lazy_blocked": the same lazily defined, already blocked series, handing out plain arrays
            return zero if blk is None else blk
        return zero if blk is None else MatElem(blk, inj)

    return BlockSeries(eval=ev, shape=(nb, nb), n_infinite=k, name="Huser"), concrete


def data_series(inst, table=None):
    """The Hamiltonian as a pre-blocked BlockSeries over the caller's own dictionary
    {(i, j, *n): block} (the documented `data=` form): the dictionary stays the caller's."""
    from pymablock.series import BlockSeries

    k = inst["k"]
    nb = len(inst["sizes"])
    if table is None:
        order = hermitian.block_order(inst)
        offs = np.concatenate(([0], np.cumsum(inst["sizes"])))
        idx = [order[offs[b]:offs[b + 1]] for b in range(nb)]
        terms = {(0,) * k: hermitian.h0_user(inst), **inst["terms"]}
        table = {}
        for n, m in terms.items():
            a = hermitian.to_numpy(m, force_complex=inst["vtype"] == "numpy_complex")
            for i in range(nb):
                for j in range(nb):
                    blk = np.array(a[np.ix_(idx[i], idx[j])])
                    if np.any(blk):
                        table[(i, j, *n)] = blk
    return BlockSeries(data=table, shape=(nb, nb), n_infinite=k, name="Hdata"), table


def blocklist_series(inst, inj):
    """A lazily defined SCALAR series whose terms are nested block lists [[H_00, H_01], [H_10, H_11]]
    (no subspace designation): the user callback returns the whole term, pre-blocked."""
    from pymablock.series import BlockSeries, zero

    k = inst["k"]
    nb = len(inst["sizes"])
    order = hermitian.block_order(inst)
    offs = np.concatenate(([0], np.cumsum(inst["sizes"])))
    idx = [order[offs[b]:offs[b + 1]] for b in range(nb)]
    terms = {(0,) * k: hermitian.h0_user(inst), **inst["terms"]}
    concrete = {}
    for n, m in terms.items():
        a = hermitian.to_numpy(m, force_complex=inst["vtype"] == "numpy_complex")
        concrete[n] = a

    def ev(*index):
        inj.hit(("H", index))
        a = concrete.get(tuple(index))
        if a is None:
            return zero
        return [[np.array(a[np.ix_(idx[i], idx[j])]) for j in range(nb)] for i in range(nb)]

    return BlockSeries(eval=ev, shape=(), n_infinite=k, name="Huser"), concrete


def diag_solver(inst, inj):
    """A harness-supplied solve_sylvester(Y, index): second user callback."""
    from pymablock.series import zero

    order = hermitian.block_order(inst)
    nb = len(inst["sizes"])
    offs = np.concatenate(([0], np.cumsum(inst["sizes"])))
    E = np.array([float(hermitian.epair(inst["E"][i])[0]) for i in order])
    eigs = [E[offs[b]:offs[b + 1]] for b in range(nb)]

    def solve(Y, index):
        inj.hit(("sylv", tuple(index)))
        if Y is zero:
            return zero
        a, b = eigs[index[0]], eigs[index[1]]
        if isinstance(Y, MatElem):
            return MatElem(Y.a / (a.reshape(-1, 1) - b), Y.inj)
        if hasattr(Y, "toarray"):
            Y = Y.toarray()
        return Y / (a.reshape(-1, 1) - b)

    return solve


def build(inst, inj, *, custom_solver=False, poison=(), copies=None, shared=None, input_kind="lazy"):
    import pymablock

    if shared is not None and input_kind == "data_series":
        # a NEW series built from the caller's SAME dictionary
        H, concrete = data_series(inst, shared[1])
    elif shared is not None:
        H, concrete = shared
    elif input_kind == "dict":
        global _PRE_KINDS
        concrete = hermitian.concrete_hamiltonian(inst)
        H = concrete
        _PRE_KINDS = {n: entry_kind(a) for n, a in concrete.items()}
    elif input_kind == "algebra":
        H, concrete = algebra_series(inst, inj, poison=poison, copies=copies)
    elif input_kind == "data_series":
        H, concrete = data_series(inst)
    elif input_kind == "lazy_blocked":
        H, concrete = algebra_series(inst, inj, poison=poison, copies=copies, plain=True)
    elif input_kind == "lazy_sympy":
        H, concrete = user_series(inst, inj, poison=poison, symbolic=True)
    elif input_kind == "lazy_implicit":
        H, concrete = user_series(inst, inj, poison=poison, copies=copies)
    elif input_kind == "lazy_blocklists":
        H, concrete = blocklist_series(inst, inj)
    else:
        H, concrete = user_series(inst, inj, poison=poison, copies=copies)
    kw = {}
    if custom_solver or input_kind == "algebra":
        kw["solve_sylvester"] = diag_solver(inst, inj)
    else:
        kw["fully_diagonalize"] = hermitian.fd_argument(inst)
    if input_kind == "lazy_implicit":
        # IMPLICIT mode: only the explicit blocks 0..nb-2 are designated (standard basis vectors, H_0 is
        # diagonal), the last block is the complement; default direct solver
        d, nbk = inst["d"], len(inst["sizes"])
        eye = np.eye(d)
        kw["subspace_eigenvectors"] = [np.ascontiguousarray(eye[:, [i for i in range(d) if inst["sub_idx"][i] == b]])
                                       for b in range(nbk - 1)]
    elif input_kind not in ("algebra", "data_series", "lazy_blocklists", "lazy_blocked"):
        kw["subspace_indices"] = list(inst["sub_idx"])
    with warnings.catch_warnings():
        warnings.simplefilter("ignore")
        outs = pymablock.block_diagonalize(H, hermitian=inst.get("hermitian", True), **kw)
    return outs, (H, concrete)


def expand_request(req, inst):
    """Cells covered by a request (out, i, j, orders) where each order component is
    an int or ('s', stop) meaning slice(None, stop)."""
    out, i, j, ords = req
    comps = [range(o[1]) if isinstance(o, tuple) else [o] for o in ords]
    return [(out, i, j, tuple(n)) for n in itertools.product(*comps)]


def py_index(req):
    out, i, j, ords = req
    return (i, j, *[slice(None, o[1]) if isinstance(o, tuple) else o for o in ords])


def fresh_truth(inst, p, custom_solver=False):
    """Values of an undisturbed, untraced computation: {(out,i,j,n): (residues, tag)}."""
    inj = Injector()
    outs, _ = build(inst, inj, custom_solver=custom_solver)
    truth = {}
    ncalls = None
    nb = len(inst["sizes"])
    for n in order_seq(inst["k"], inst["N"]):
        for oi, S in enumerate(outs):
            for i in range(nb):
                for j in range(nb):
                    v = S[(i, j, *n)]
                    truth[(OUT_NAMES[oi], i, j, n)] = hermitian.block_to_res(
                        v, (inst["sizes"][i], inst["sizes"][j]), p)
    return truth, outs


def entry_kind(a):
    from scipy import sparse

    return type(a).__name__ + (":" + a.format if sparse.issparse(a) else "")


# container types of the caller's dictionary entries as they were BEFORE block_diagonalize was called (dict input)
_PRE_KINDS = None


def fingerprint(concrete, p, kinds=None):
    from scipy import sparse

    from pymablock.series import zero

    fp = []
    for n in sorted(concrete):
        a = concrete[n]
        if a is zero or not hasattr(a, "shape"):
            fp.append([list(n), repr(a)])      # an entry that is not the caller's (sentinel / marker)
            continue
        if hasattr(a, "applyfunc"):            # sympy matrix
            fp.append([list(n), [[common.red_sympy(a[i, j], p) for j in range(a.shape[1])] for i in range(a.shape[0])]])
            continue
        # the container type of the entry is part of the caller's data: an ndarray silently replaced by a
        # sparse array of equal values (or a COO by a CSR array) is a modification of the caller's dictionary
        kind = kinds[n] if kinds and n in kinds else entry_kind(a)
        a = a.toarray() if sparse.issparse(a) else a
        # algebra input: keys are (i, j, *n) block cells; the Trace_Engine record only
        # compares fingerprints for equality
        fp.append([list(n), common.red_matrix(a, p), kind])
    return fp


def run_schedule(inst, schedule, p, truth, sid, *, plan=None, custom_solver=False, poison=(),
                 recheck=3, ncomp=1, input_kind="lazy", want_inst_truth=None, max_define_retries=3):
    """Drive the real code along `schedule`; return the session record for Trace_Engine.

    schedule: list of (comp, (out, i, j, ords)).  Several computations are built
    from the SAME input objects.  After an exception in the definition phase the
    definition is simply repeated (the caller's objects must still be usable).
    """
    from scipy import sparse

    ses = tracer.Session()
    inj = Injector(plan, ses)
    sizes = inst["sizes"]
    handed = []  # (event position, k, object, shape)
    fp0 = []
    with ses:
        comps = []
        shared = None
        failed = False
        for c in range(ncomp):
            for attempt in range(max_define_retries + 1):
                ses.emit("req", kind="define", cells=[])
                try:
                    outs, shared = build(inst, inj, custom_solver=custom_solver, poison=poison,
                                         shared=shared, input_kind=input_kind)
                except BaseException as e:  # noqa: BLE001
                    ses.emit("raise", exc=type(e).__name__, pending=ses.pending_cells())
                    ses.unwinding = False
                    outs = None
                    continue
                ses.emit("ret", vals=[], pending=ses.pending_cells())
                break
            if outs is None:
                failed = True
                break
            comps.append(dict(zip(OUT_NAMES, outs)))
        if failed:
            return finish(ses, sid, inst, fp0, p)
        concrete = shared[1]
        fp0 = fingerprint(concrete, p, kinds=_PRE_KINDS if input_kind == "dict" else None)
        for (c, req) in schedule:
            cells = expand_request(req, inst)
            S = comps[c][req[0]]
            ses.emit("req", kind="cells",
                     cells=[ses.cell(S, (i, j, *n)) for (_, i, j, n) in cells])
            try:
                with warnings.catch_warnings():
                    warnings.simplefilter("ignore")
                    got = S[py_index(req)]
            except BaseException as e:  # noqa: BLE001
                ses.emit("raise", exc=type(e).__name__, pending=ses.pending_cells())
                ses.unwinding = False
                continue
            if any(isinstance(o, tuple) for o in req[3]):
                flat = list(np.ma.getdata(got).reshape(-1))  # masked arrays hide zeros
            else:
                flat = [got]
            vals = []
            for kk, ((o, i, j, n), v) in enumerate(zip(cells, flat)):
                v = unwrap(v)
                res, tag = hermitian.block_to_res(v, (sizes[i], sizes[j]), p)
                want, _ = truth[(o, i, j, n)]
                vals.append(dict(ses.cell(S, (i, j, *n)), tag=tag, v=res, want=want))
                if tag == "val" and recheck:
                    # what the caller holds: the element object and, for a slice request, the returned
                    # (masked) array itself -- its entry must keep denoting the same element
                    holder = got if any(isinstance(o, tuple) for o in req[3]) else None
                    handed.append((len(ses.events) + 1, kk + 1, v, (sizes[i], sizes[j]), holder, kk))
            ses.emit("ret", vals=vals, pending=ses.pending_cells())
            for (pos, kk, obj, shape, holder, slot) in (handed[-recheck:] if recheck else []):
                now = obj if holder is None else np.ma.getdata(holder).reshape(-1)[slot]
                try:
                    res, _ = hermitian.block_to_res(unwrap(now), shape, p)
                    if holder is not None:
                        res0, _ = hermitian.block_to_res(unwrap(obj), shape, p)
                        if res0 != res:
                            res = [[[-1, -1]]]
                except Exception:  # noqa: BLE001   (e.g. the entry was overwritten by a number)
                    res = [[[-1, -1]]]          # no residue is negative: TLC rejects the recheck
                ses.emit("recheck", ref=pos, k=kk, v=res)
        ses.emit("inputs", fp=fingerprint(concrete, p))
    return finish(ses, sid, inst, fp0, p)


DEFAULTS = dict(s="", i=[], ord=[], tag="", exc="", had=0, pending=0, kind="", cells=[], vals=[],
                ref=0, k=0, v=[], fp=[], n=0, what="")


def finish(ses, sid, inst, fp0, p):
    events = []
    for e in ses.events:
        ev = dict(DEFAULTS)
        ev.update(e)
        if ev["had"] is True:
            ev["had"] = 1
        elif ev["had"] in (False, None):
            ev["had"] = 0
        events.append(ev)
    inputs = sorted({e["s"] for e in events if e["s"].startswith("Huser#")})
    return dict(sid=sid, inputs=inputs, fp0=fp0, ev=events)
