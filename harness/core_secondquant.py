"""Check C07: second-quantised block diagonalisation agrees with matrices on Fock states.

Model families (anharmonic boson, two-level x boson as a 2x2 matrix of operators, spin
operator x boson, fermion x boson, two fermions with pairing, ladder / charge basis,
matrix-valued with full diagonalisation of a block, operator-valued masks) with random
rational coefficients are given to the REAL block_diagonalize as sympy expressions; the
same Hamiltonian goes to TLC as expression TREES.  Trace_SecondQuant.tla builds the
truncated Fock matrices from the trees, runs the LeastAction reference on them and
compares with the meaning of every returned operator on all interior Fock states.
"""

from __future__ import annotations

import copy
import itertools
import multiprocessing as mp
import time
import traceback
import warnings
from fractions import Fraction as F

from . import common, core_nof
from .common import MachineryError

CFG = (common.SPEC / "Trace_SecondQuant.cfg").read_text()


def scal(q, im=0):
    return ("scal", F(q), F(im))


def mul(*xs):
    return ("mul", list(xs))


def add(*xs):
    return ("add", list(xs))


def gen(i, dag=0):
    return ("gen", i, dag)


def num(i):
    return ("num", i)


def pw(x, k):
    return ("pow", x, k)


def rq(rng, lo=1, hi=5, dens=(1, 2, 3)):
    return F(rng.randint(lo, hi), rng.choice(dens))


FAMILIES = ["anharmonic", "rabi_matrix", "spin_boson", "holstein", "two_fermions", "ladder",
            "matrix_fd", "operator_mask", "boson_ladder", "ladder_matrix", "ladder_fermion", "spin_fermion",
            "two_bosons", "three_fermions", "cubic_drive"]
# (a family with two blocks of IDENTICAL sectors was tried: on the Fock matrices the pairs (0,n)/(1,n) are
# degenerate eliminated pairs -- never coupled, by a conserved quantity, but ill posed for the matrix
# reference -- so Trace_SecondQuant skips it; the solver-level check of C16 covers equal sectors)


def models(rng, sid=None):
    """Returns dict(modes, r, block, H (order -> r x r matrix of trees or None), rule per block, elim masks)."""
    kind = rng.choice(FAMILIES)
    if sid is not None:
        kind = FAMILIES[(sid - 1) % len(FAMILIES)]     # every family in every run
    w, al, g, h = rq(rng, 2, 5), rq(rng, 1, 2, (3, 5, 7)), rq(rng), rq(rng)
    if sid == 0:
        # the fixed witness of the known finding `negative_integer_resonance`: H_0 = N + N^2, H_1 = a + a^dagger
        one_ = F(1)
        modes = [("boson", "a")]
        H0 = [[add(mul(scal(one_), num(0)), mul(scal(one_), pw(num(0), 2)))]]
        H1 = [[mul(scal(one_), add(gen(0), gen(0, 1)))]]
        return dict(kind="witness_negative_integer_resonance", modes=modes, r=1, block=[0], H={0: H0, 1: H1},
                    rules=[dict(kind="tuple")], scalar=True, fd="default", band=2)
    # every third session has COMPLEX couplings (g + i g', h + i h'): X + X^dagger with a complex prefactor
    cplx = sid is not None and sid % 3 == 2
    gi, hi = (rq(rng), rq(rng)) if cplx else (0, 0)

    def herm(x):
        return add(x, ("dag", x))
    if kind == "anharmonic":
        modes = [("boson", "a")]
        H0 = [[add(mul(scal(w), num(0)), mul(scal(al), pw(num(0), 2)))]]
        terms = [herm(mul(scal(g, gi), gen(0))) if cplx else mul(scal(g), add(gen(0), gen(0, 1)))]
        if rng.random() < 0.5:
            terms.append(herm(mul(scal(h, hi), pw(gen(0), 2))) if cplx
                         else mul(scal(h), add(pw(gen(0), 2), pw(gen(0, 1), 2))))
        if rng.random() < 0.4:
            terms.append(mul(scal(h), pw(num(0), 2)))
        H1 = [[add(*terms) if len(terms) > 1 else terms[0]]]
        return dict(kind=kind, modes=modes, r=1, block=[0], H={0: H0, 1: H1}, rules=[dict(kind="tuple")],
                    scalar=True, fd="default", band=2)
    if kind == "cubic_drive":
        # linear and CUBIC drive together: intermediate products a^p (a^dagger)^q with p > q, p != 2q
        # (a^3 a^dagger, a^3 a^dagger^2 ...) occur from second order on
        modes = [("boson", "a")]
        H0 = [[add(mul(scal(w), num(0)), mul(scal(al), pw(num(0), 2)))]]
        H1 = [[add(herm(mul(scal(g, gi), gen(0))), herm(mul(scal(h, hi), pw(gen(0), 3))))]]
        return dict(kind=kind, modes=modes, r=1, block=[0], H={0: H0, 1: H1}, rules=[dict(kind="tuple")],
                    scalar=True, fd="default", band=3)
    if kind == "rabi_matrix":
        modes = [("boson", "a")]
        d = rq(rng, 1, 3, (3, 7))
        H0 = [[add(scal(d), mul(scal(w), num(0))), None], [None, add(scal(-d), mul(scal(w), num(0)))]]
        up = (add(mul(scal(g, gi), gen(0)), mul(scal(h, hi), gen(0, 1))) if rng.random() < 0.6
              else mul(scal(g, gi), gen(0)))
        lo = ("dag", up)
        dg = mul(scal(rq(rng)), add(gen(0), gen(0, 1))) if rng.random() < 0.4 else None
        H1 = [[dg, up], [lo, dg]]
        return dict(kind=kind, modes=modes, r=2, block=[0, 1], H={0: H0, 1: H1},
                    rules=[dict(kind="none"), dict(kind="none")], scalar=False, fd="none", band=1)
    if kind == "spin_boson":
        modes = [("boson", "a"), ("spin", "s")]
        d = rq(rng, 1, 3, (3, 7))
        H0 = [[add(mul(scal(w), num(0)), mul(scal(d), num(1)))]]
        rot = add(mul(gen(0, 1), gen(1)), mul(gen(0), gen(1, 1)))
        crot = add(mul(gen(0), gen(1)), mul(gen(0, 1), gen(1, 1)))
        if cplx:
            rot_c, crot_c = herm(mul(scal(g, gi), gen(0, 1), gen(1))), herm(mul(scal(h, hi), gen(0), gen(1)))
            H1 = [[add(rot_c, crot_c) if rng.random() < 0.6 else rot_c]]
        else:
            H1 = [[add(mul(scal(g), rot), mul(scal(h), crot)) if rng.random() < 0.6 else mul(scal(g), rot)]]
        return dict(kind=kind, modes=modes, r=1, block=[0], H={0: H0, 1: H1}, rules=[dict(kind="tuple")],
                    scalar=True, fd="default", band=1)
    if kind == "holstein":
        modes = [("boson", "a"), ("fermion", "c")]
        e = rq(rng, 1, 3, (3, 7))
        H0 = [[add(mul(scal(w), num(0)), mul(scal(e), num(1)))]]
        H1 = [[add(mul(scal(g), num(1), add(gen(0), gen(0, 1))), mul(scal(h), add(gen(0), gen(0, 1))))]]
        return dict(kind=kind, modes=modes, r=1, block=[0], H={0: H0, 1: H1}, rules=[dict(kind="tuple")],
                    scalar=True, fd="default", band=1)
    if kind == "two_fermions":
        modes = [("fermion", "c"), ("fermion", "d")]
        e1, e2, u = rq(rng, 1, 3, (3,)), rq(rng, 2, 5, (7,)), rq(rng, 1, 2, (5,))
        H0 = [[add(mul(scal(e1), num(0)), mul(scal(e2), num(1)), mul(scal(u), num(0), num(1)))]]
        hop = add(mul(gen(0, 1), gen(1)), mul(gen(1, 1), gen(0)))
        pair = add(mul(gen(0), gen(1)), mul(gen(1, 1), gen(0, 1)))
        H1 = [[add(mul(scal(g), hop), mul(scal(h), pair))]]
        if cplx:
            H1 = [[add(herm(mul(scal(g, gi), gen(0, 1), gen(1))), herm(mul(scal(h, hi), gen(0), gen(1))))]]
        return dict(kind=kind, modes=modes, r=1, block=[0], H={0: H0, 1: H1}, rules=[dict(kind="tuple")],
                    scalar=True, fd="default", band=1)
    if kind == "ladder":
        modes = [("ladder", "l")]
        ng = rq(rng, 1, 2, (3, 5))
        H0 = [[add(mul(scal(w), pw(num(0), 2)), mul(scal(ng), num(0)))]]
        H1 = [[herm(mul(scal(g, gi), gen(0))) if cplx else mul(scal(g), add(gen(0), gen(0, 1)))]]
        return dict(kind=kind, modes=modes, r=1, block=[0], H={0: H0, 1: H1}, rules=[dict(kind="tuple")],
                    scalar=True, fd="default", band=1)
    if kind == "matrix_fd":
        modes = [("boson", "a")]
        d = rq(rng, 1, 3, (3, 7))
        H0 = [[mul(scal(w), num(0)), None], [None, add(scal(d), mul(scal(w), num(0)))]]
        H1 = [[mul(scal(h), add(gen(0), gen(0, 1))), mul(scal(g, gi), gen(0))],
              [("dag", mul(scal(g, gi), gen(0))), None]]
        return dict(kind=kind, modes=modes, r=2, block=[0, 0], H={0: H0, 1: H1}, rules=[dict(kind="tuple")],
                    scalar=False, fd="default", band=1)
    if kind == "equal_sector_matrix":
        # two blocks whose unperturbed sectors are the SAME operator expression; the coupling changes the
        # boson number, so the coupled levels are still non-degenerate
        modes = [("boson", "a")]
        sect = add(mul(scal(w), num(0)), mul(scal(al), pw(num(0), 2)))
        H0 = [[sect, None], [None, sect]]
        up = add(mul(scal(g), gen(0)), mul(scal(h), num(0), gen(0, 1))) if rng.random() < 0.6 else mul(scal(g), gen(0))
        H1 = [[None, up], [("dag", up), None]]
        return dict(kind=kind, modes=modes, r=2, block=[0, 1], H={0: H0, 1: H1},
                    rules=[dict(kind="none"), dict(kind="none")], scalar=False, fd="none", band=1)
    if kind == "boson_ladder":
        # a boson exchanging quanta with a charge (ladder) degree of freedom; H_0 depends on both numbers
        modes = [("boson", "a"), ("ladder", "l")]
        c, ng = rq(rng, 1, 3, (7, 11)), rq(rng, 1, 2, (3, 5))
        H0 = [[add(mul(scal(w), num(0)), mul(scal(al), pw(num(0), 2)), mul(scal(c), pw(num(1), 2)),
                   mul(scal(ng), num(1)))]]
        ex = add(mul(gen(0, 1), gen(1)), mul(gen(0), gen(1, 1)))
        co = add(mul(gen(0), gen(1)), mul(gen(0, 1), gen(1, 1)))
        H1 = [[add(mul(scal(g), ex), mul(scal(h), co)) if rng.random() < 0.5 else mul(scal(g), ex)]]
        return dict(kind=kind, modes=modes, r=1, block=[0], H={0: H0, 1: H1}, rules=[dict(kind="tuple")],
                    scalar=True, fd="default", band=1, slack=1)
    if kind == "ladder_matrix":
        # two-level system driven through a ladder mode: ladder operators in off-diagonal matrix entries
        modes = [("ladder", "l")]
        d, ng = rq(rng, 1, 3, (3, 7)), rq(rng, 1, 2, (5, 11))
        diag = add(mul(scal(w), pw(num(0), 2)), mul(scal(ng), num(0)))
        H0 = [[add(scal(d), diag), None], [None, add(scal(-d), diag)]]
        up = add(mul(scal(g), gen(0)), mul(scal(h), gen(0, 1))) if rng.random() < 0.6 else mul(scal(g), gen(0))
        H1 = [[None, up], [("dag", up), None]]
        return dict(kind=kind, modes=modes, r=2, block=[0, 1], H={0: H0, 1: H1},
                    rules=[dict(kind="none"), dict(kind="none")], scalar=False, fd="none", band=1)
    if kind == "ladder_fermion":
        modes = [("ladder", "l"), ("fermion", "c")]
        e, ng = rq(rng, 1, 3, (3, 7)), rq(rng, 1, 2, (5, 11))
        H0 = [[add(mul(scal(w), pw(num(0), 2)), mul(scal(ng), num(0)), mul(scal(e), num(1)))]]
        tun = add(mul(gen(1), gen(0, 1)), mul(gen(1, 1), gen(0)))
        H1 = [[add(mul(scal(g), tun), mul(scal(h), num(1), add(gen(0), gen(0, 1)))) if rng.random() < 0.5
               else mul(scal(g), tun)]]
        return dict(kind=kind, modes=modes, r=1, block=[0], H={0: H0, 1: H1}, rules=[dict(kind="tuple")],
                    scalar=True, fd="default", band=1)
    if kind == "spin_fermion":
        modes = [("spin", "s"), ("fermion", "c"), ("fermion", "d")]
        e1, e2, d = rq(rng, 1, 3, (3,)), rq(rng, 2, 5, (7,)), rq(rng, 1, 3, (11,))
        H0 = [[add(mul(scal(d), num(0)), mul(scal(e1), num(1)), mul(scal(e2), num(2)))]]
        flip = add(mul(gen(0), gen(1, 1), gen(2)), mul(gen(2, 1), gen(1), gen(0, 1)))
        odd = add(mul(gen(0), gen(1)), mul(gen(1, 1), gen(0, 1)))
        H1 = [[add(mul(scal(g), flip), mul(scal(h), odd))]]
        return dict(kind=kind, modes=modes, r=1, block=[0], H={0: H0, 1: H1}, rules=[dict(kind="tuple")],
                    scalar=True, fd="default", band=1)
    if kind == "two_bosons":
        modes = [("boson", "a"), ("boson", "b")]
        w2, u = rq(rng, 2, 5, (7,)), rq(rng, 1, 2, (11, 13))
        H0 = [[add(mul(scal(w), num(0)), mul(scal(w2), num(1)), mul(scal(al), pw(num(0), 2)),
                   mul(scal(u), num(0), num(1)))]]
        bs = add(mul(gen(0, 1), gen(1)), mul(gen(1, 1), gen(0)))
        sq2 = add(mul(gen(0), gen(1)), mul(gen(0, 1), gen(1, 1)))
        H1 = [[add(mul(scal(g), bs), mul(scal(h), sq2)) if rng.random() < 0.5 else mul(scal(g), bs)]]
        return dict(kind=kind, modes=modes, r=1, block=[0], H={0: H0, 1: H1}, rules=[dict(kind="tuple")],
                    scalar=True, fd="default", band=1, slack=1)
    if kind == "three_fermions":
        modes = [("fermion", "c"), ("fermion", "d"), ("fermion", "e")]
        e1, e2, e3, u = rq(rng, 1, 3, (3,)), rq(rng, 2, 5, (7,)), rq(rng, 1, 4, (11,)), rq(rng, 1, 2, (5,))
        H0 = [[add(mul(scal(e1), num(0)), mul(scal(e2), num(1)), mul(scal(e3), num(2)), mul(scal(u), num(0), num(2)))]]
        hop = add(mul(gen(0, 1), gen(2)), mul(gen(2, 1), gen(0)))
        pair = add(mul(gen(0), gen(2)), mul(gen(2, 1), gen(0, 1)))
        pair2 = add(mul(gen(1), gen(2)), mul(gen(2, 1), gen(1, 1)))
        H1 = [[add(mul(scal(g), hop), mul(scal(h), pair), mul(scal(rq(rng)), pair2))]]
        return dict(kind=kind, modes=modes, r=1, block=[0], H={0: H0, 1: H1}, rules=[dict(kind="tuple")],
                    scalar=True, fd="default", band=1)
    # operator_mask: eliminate only the terms with the listed operator powers
    modes = [("boson", "a")]
    H0 = [[add(mul(scal(w), num(0)), mul(scal(al), pw(num(0), 2)))]]
    H1 = [[add(mul(scal(g), add(gen(0), gen(0, 1))), mul(scal(h), add(pw(gen(0), 2), pw(gen(0, 1), 2))))]]
    if cplx:
        H1 = [[add(herm(mul(scal(g, gi), gen(0))), herm(mul(scal(h, hi), pw(gen(0), 2))))]]
    which = rng.choice([[1], [2], [1, 2]])
    if sid is not None:
        # fixed by the session number: the first two sessions of the family (every quick run) have masks that are NOT
        # closed under products with the kept part ([1]: the a^2 terms are kept; [2]: the linear terms are kept)
        which = [[1], [2], [1, 2]][((sid - 1) // len(FAMILIES)) % 3]
    return dict(kind=kind, modes=modes, r=1, block=[0], H={0: H0, 1: H1}, rules=[dict(kind="mask")],
                scalar=True, fd="mask", mask_powers=which, band=2)


def sqrt_mod(x, p):
    r = pow(x % p, (p + 1) // 4, p)
    if r * r % p != x % p:
        raise MachineryError(f"{x} has no square root mod {p}")
    return r


def negative_resonance(H0, ops, modes, reach):
    """The input class of the known finding: two DIFFERENT levels of H_0, continued as polynomials to integer
    boson occupations of which at least one is NEGATIVE, coincide within `reach` quanta of each other.  An
    energy denominator of the perturbation series then has a pole at an unphysical negative occupation, which
    NumberOrderedForm products cancel against the falling factorial when the function is moved through
    annihilators (known finding C08 pole_cancellation): wrong on the occupations the annihilators kill."""
    import sympy
    from pymablock.number_ordered_form import NumberOperator

    nums = [NumberOperator(o) for o in ops]
    ranges = []
    for m in modes:
        if m["kind"] in ("boson", "ladder"):
            ranges.append(range(-reach, reach + 1))
        else:
            ranges.append(range(0, 2))
    xs = sympy.symbols(f"x0:{len(nums)}")
    diag = [sympy.expand(sympy.sympify(H0[i, i]).subs(dict(zip(nums, xs)))) for i in range(H0.shape[0])]
    if not any(sympy.Poly(d, *xs).total_degree() > 1 for d in diag):
        return None                                    # linear H_0: constant denominators
    by_energy = {}
    fns = [sympy.lambdify(xs, d, "sympy") for d in diag]
    for i in range(H0.shape[0]):
        for occ in itertools.product(*ranges):
            e = sympy.nsimplify(fns[i](*[sympy.Integer(x) for x in occ]))
            by_energy.setdefault(e, []).append((i, occ))
    for e, lv in by_energy.items():
        for x in lv:
            if not any(m["kind"] == "boson" and n < 0 for m, n in zip(modes, x[1])):
                continue
            for y in lv:
                if y != x and max(abs(a - b) for a, b in zip(x[1], y[1])) <= reach:
                    return [[x[0], list(x[1])], [y[0], list(y[1])]]
    return None


def build_session(sid, seed, N):
    import sympy
    from pymablock import block_diagonalize
    from pymablock.number_ordered_form import NumberOrderedForm as NOF
    from pymablock.series import one, zero
    from sympy.physics.quantum import Dagger

    rng = common.rng_for(seed, "C07", sid)
    p = common.P1
    # three sessions in four stay OUTSIDE the input class of the known finding `negative_integer_resonance`
    # (coefficients redrawn), so that the families with a non-linear H_0 keep their full sensitivity
    for _attempt in range(40):
        m = models(rng, sid)
        margin = N * m["band"]
        slack = m.get("slack", 3)        # interior occupations per unbounded mode beyond the margin
        modes = []
        for kind, name in m["modes"]:
            if kind == "boson":
                modes.append(dict(kind=kind, name=name, lo=0, hi=min(10, margin + slack)))
            elif kind == "ladder":
                modes.append(dict(kind=kind, name=name, lo=-(margin + min(slack, 2)), hi=margin + min(slack, 2)))
            else:
                modes.append(dict(kind=kind, name=name, lo=0, hi=1))
        ops = core_nof.sympy_ops(modes)
        states = core_nof.states_of(modes)
        strides = []
        for i in range(len(modes)):
            st = 1
            for mm in modes[i + 1:]:
                st *= mm["hi"] - mm["lo"] + 1
            strides.append(st)
        r = m["r"]
        # sympy input and trees
        zero_tree = ["scal", [0, 0]]
        Hs, Htrees = {}, []
        for n in range(N + 1):
            mat = m["H"].get(n)
            sm = sympy.zeros(r, r)
            tr = [[zero_tree for _ in range(r)] for _ in range(r)]
            if mat is not None:
                for i in range(r):
                    for j in range(r):
                        if mat[i][j] is not None:
                            sm[i, j] = core_nof.to_sympy(mat[i][j], ops, modes)
                            tr[i][j] = core_nof.normalise(mat[i][j], modes, states, p)
            Hs[n] = sm
            Htrees.append(tr)
        resonance = negative_resonance(Hs[0], ops, modes, margin + 2)
        if resonance is None or sid == 0 or sid % 4 == 3:
            break
    try:
        return _build_rest(sid, N, m, modes, ops, states, strides, r, Hs, Htrees, p, margin, resonance)
    except Exception as e:  # noqa: BLE001
        if resonance is not None:
            raise RuntimeError(f"[negative_integer_resonance {resonance}] {type(e).__name__}: {e}") from e
        raise


def _build_rest(sid, N, m, modes, ops, states, strides, r, Hs, Htrees, p, margin, resonance):
    import sympy
    from pymablock import block_diagonalize
    from pymablock.number_ordered_form import NumberOrderedForm as NOF
    from pymablock.series import one, zero
    from sympy.physics.quantum import Dagger

    if m["scalar"]:
        H_in = [Hs[0][0, 0], Hs[1][0, 0]]
    else:
        H_in = [Hs[0], Hs[1]]
    kw = {}
    if not m["scalar"]:
        kw["subspace_indices"] = list(m["block"])
    elim = [[[] for _ in range(r)] for _ in range(r)]
    if m["fd"] == "mask":
        a = ops[0]
        expr = sum((a**q + Dagger(a) ** q for q in m["mask_powers"]), sympy.S.Zero)
        kw["fully_diagonalize"] = expr
        elim[0][0] = [[q] for q in m["mask_powers"]] + [[-q] for q in m["mask_powers"]]
    with warnings.catch_warnings():
        warnings.simplefilter("ignore")
        Ht, U, Ud = block_diagonalize(H_in, **kw)
        nb = max(m["block"]) + 1
        rows_of = [[i for i in range(r) if m["block"][i] == b] for b in range(nb)]

        def rec_of(x):
            if x is None or x == 0:
                return dict(terms=[])
            if not isinstance(x, NOF) or list(x.operators) != list(ops):
                x = NOF.from_expr(x.as_expr() if isinstance(x, NOF) else sympy.sympify(x), operators=ops)
            return core_nof.nof_record(x, ops, modes, states, p)

        out = []
        for n in range(N + 1):
            rec = {}
            for name, S in (("Ht", Ht), ("U", U), ("Ud", Ud)):
                big = [[dict(terms=[]) for _ in range(r)] for _ in range(r)]
                for bi in range(nb):
                    for bj in range(nb):
                        v = S[(bi, bj, n)]
                        if v is zero:
                            continue
                        ri, rj = rows_of[bi], rows_of[bj]
                        if v is one:
                            for a_, row in enumerate(ri):
                                big[row][row] = rec_of(sympy.S.One)
                            continue
                        if isinstance(v, sympy.MatrixBase):
                            for a_, row in enumerate(ri):
                                for b_, col in enumerate(rj):
                                    big[row][col] = rec_of(v[a_, b_])
                        else:
                            big[ri[0]][rj[0]] = rec_of(v)
                rec[name] = big
            out.append(rec)
    # H_0 entries equal as expressions (what the tuple rule keeps)
    same0 = [[int(sympy.simplify(Hs[0][i, i] - Hs[0][j, j]) == 0) for j in range(r)] for i in range(r)]
    sq = []
    for s in states:
        g = 1
        for mm, nn in zip(modes, s):
            if mm["kind"] == "boson":
                for q in range(2, nn + 1):
                    g = g * q % p
        sq.append(sqrt_mod(g, p))
    ses = dict(sid=sid, modes=[dict(kind=x["kind"], lo=x["lo"], hi=x["hi"]) for x in modes],
               states=[list(s) for s in states], strides=strides, r=r, block=list(m["block"]), k=1, N=N,
               H=Htrees, rules=m["rules"], same0=same0, elim=elim, sq=sq, margin=margin, out=out)
    meta = dict(model=m["kind"], modes=m["modes"], H0=str(Hs[0]), H1=str(Hs[1]), N=N, margin=margin,
                fock_dim=len(states), mask_powers=m.get("mask_powers"), negative_integer_resonance=resonance,
                complex_couplings=bool(sid % 3 == 2))
    return ses, meta


def _job(args):
    sid, seed, N = args
    try:
        return ("ok", sid) + build_session(sid, seed, N)
    except Exception as e:  # noqa: BLE001
        return ("crash", sid, f"{type(e).__name__}: {e}\n{traceback.format_exc(limit=8)}", None)


def validate(sessions, workers=16, timeout=2400):
    res = common.run_tlc("Trace_SecondQuant", CFG, trace=sessions, workers=workers, timeout=timeout)
    done = {t[1]: t[2] for t in res.lines("DONE")}
    ill = [t[1] for t in res.lines("ILLPOSED")]
    fails = {}
    for t in res.lines("FAIL"):
        fails.setdefault(t[1], []).append((t[2], t[3]))
    missing = {s["sid"] for s in sessions} - set(done) - set(ill)
    if missing or res.rc != 0:
        raise MachineryError(f"Trace_SecondQuant: no verdict for {sorted(missing)[:5]} rc={res.rc}\n" + res.out[-2500:])
    return res, done, fails, ill


def run(pid, tier, seed, replay=None):
    t0 = time.time()
    quick = tier == "quick"
    N = 2 if quick else 3
    n = 30 if quick else 150
    ids = list(range(0, n + 1)) if replay is None else [replay["sid"]]     # sid 0: the known-finding witness
    if replay is not None:
        seed, N = replay["seed"], replay["N"]
    with mp.get_context("fork").Pool(16) as pool:
        items = pool.map(_job, [(i, seed, N) for i in ids], chunksize=1)
    sessions, metas, violations, crashes, known, known_sessions = [], {}, [], [], [], []
    kf = common.load_known_findings()
    for it in items:
        if it[0] == "ok":
            sessions.append(it[2])
            metas[it[1]] = it[3]
        else:
            c = dict(sid=it[1], seed=seed, N=N, error=it[2][:800])
            k = next((f["what"] for f in kf.get("findings", []) if f.get("property") == "C07" and
                      ((f.get("matcher") == "error_substring" and f["substring"] in c["error"]) or
                       (f.get("matcher") == "negative_integer_resonance" and
                        "[negative_integer_resonance" in c["error"]))), None)
            if k:
                known.append(k)
            else:
                crashes.append(c)
                violations.append(dict(kind="exception", **c))
    stats = dict(states=0, transitions=0)
    illposed = 0
    if sessions:
        res, done, fails, ill = validate(sessions)
        stats["states"], stats["transitions"] = res.distinct, res.generated
        illposed = len(ill)
        kres = next((f["what"] for f in kf.get("findings", []) if f.get("property") == "C07" and
                     f.get("matcher") == "negative_integer_resonance"), None)
        for s in sessions:
            if fails.get(s["sid"]) and kres and metas[s["sid"]].get("negative_integer_resonance"):
                known.append(kres)
                known_sessions.append(dict(sid=s["sid"], resonance=metas[s["sid"]]["negative_integer_resonance"],
                                           H0=metas[s["sid"]]["H0"], clauses=sorted(set(map(str, fails[s["sid"]])))[:4]))
            elif fails.get(s["sid"]):
                violations.append(dict(kind="matrix_elements", sid=s["sid"], seed=seed, N=N, meta=metas[s["sid"]],
                                       clauses=sorted(set(fails[s["sid"]]))))
    control = None
    if replay is None and sessions:
        bad = copy.deepcopy(next(s for s in sessions if s["out"][1]["U"][0][0]["terms"] or s["out"][1]["U"][0][-1]["terms"]))
        bad["sid"] = 1
        done_ = False
        for row in bad["out"][1]["U"]:
            for rec in row:
                for t in rec["terms"]:
                    for q in range(len(t["tab"])):
                        t["tab"][q][0] = (t["tab"][q][0] + 1) % common.P1
                    done_ = True
        _, _, cf, _ = validate([bad], workers=4)
        if not cf.get(1):
            raise MachineryError("negative control accepted")
        control = dict(corrupted="all coefficient tables of U at first order (+1)", rejected_by=sorted({c for c, _ in cf[1]}))
    lines = [f"KNOWN-FINDING: property={pid} {k}" for k in sorted(set(known))]
    for i, v in enumerate(violations[:10]):
        path = common.write_replay(pid, f"{tier}_{seed}_{i}", dict(property=pid, **v))
        lines.append(f"VIOLATION property={pid} replay={path}")
    per_model = {}
    for mm in metas.values():
        per_model[mm["model"]] = per_model.get(mm["model"], 0) + 1
    coverage = dict(
        states=max(stats["states"], 1), transitions=max(stats["transitions"], 1),
        traces_validated_against_impl=len(sessions) - illposed,
        samples=[metas[s["sid"]] for s in sessions[:2]] or [dict(note="none", crashes=crashes[:2])],
        evaluations=len(sessions), distinct_nontrivial=len({str(x) for x in metas.values()}),
        rule="case = (model family, random rational coefficients, order bound); distinct by the full Hamiltonian text",
        cases_per_model=per_model, skipped_ill_posed_on_window=illposed, crashes=len(crashes),
        known_findings_hit=sorted(set(known)), known_finding_sessions=known_sessions[:10],
        sessions_in_known_finding_class=sum(1 for x in metas.values() if x.get("negative_integer_resonance")),
        negative_control=control, exhaustive=False)
    common.write_evidence(pid, tier, seed, coverage, time.time() - t0, len(violations),
                          ["comparison on Fock states at least order x bandwidth away from the truncation edge; boson "
                           "cut-off <= 10 so that sqrt(n!) exists in GF(p) (2,3,5,7 are quadratic residues mod 46199)",
                           "truncated Fock dimension <= ~22: larger cases are out of reach of dense products in TLC"])
    return lines, len(violations)
