"""Check C06: implicit mode (incomplete eigenvectors) equals the explicit computation.

For each instance h_0 = Q D Q^dagger (dyadic unitary Q, spectrum chosen so that every
eliminated gap is a power of two) the SAME Hamiltonian is run
  (a) explicitly: the complete eigenbasis is supplied (the 'twin'); its outputs are
      validated by TLC against the LeastAction reference (Trace_LeastAction);
  (b) implicitly: only the explicit subspaces are supplied (direct solver with default
      and explicit options; KPM).
TLC (Relations.tla, kind 'basis' with the rectangular T = 1 (+) Q_B) then requires
every block of the implicit run -- explicit blocks, the explicit x implicit arrays and
the densified implicit x implicit linear operators -- to equal the embedding
T X T^dagger of the twin's blocks.  LU / KPM rounding enters through alpha_snap.
"""

from __future__ import annotations

import copy
import multiprocessing as mp
import time
import traceback
import warnings
from fractions import Fraction

import numpy as np

from . import common, core_hermitian, core_relations, hermitian
from .common import MachineryError, NonFinite, Regenerate, order_seq, red_frac

F0, F1 = Fraction(0), Fraction(1)


def make_instance(rng, herm=True, max_order=3, interleaved=False):
    nexp_blocks = rng.choice([1, 1, 2])
    exp_sizes = [rng.choice([1, 2]) for _ in range(nexp_blocks)]
    if interleaved:
        nexp_blocks, exp_sizes = 1, [3]
    elif nexp_blocks == 1 and rng.random() < 0.6:
        exp_sizes = [rng.choice([2, 3, 3])]      # room for several levels inside the explicit block
    dB = rng.choice([2, 3, 4])
    d = sum(exp_sizes) + dB
    if d < 4:
        dB += 4 - d
        d = 4
    sizes = exp_sizes + [dB]
    k = rng.choice([1, 1, 2])
    N = min(max_order, 3 if k == 1 else 2)
    cx = rng.random() < 0.5
    vt = "numpy_complex" if cx else "numpy"
    for _ in range(50):
        try:
            inst = hermitian.gen_instance(rng, d=d, sizes=sizes, k=k, N=N, vtype=vt, fdkind="none", shuffle=False,
                                          hermitian=herm, basis="unitary" if herm else "pairs", complex_=cx)
            if not herm:
                # float LU solves in a non-orthogonal basis lose about cond(M) * order digits: the sparse solves of a
                # basis with cond_inf ~ 2000 were 1.01e-9 off an exact third-order value (tolerance 1e-9; thorough
                # tier, a false alarm of rounding).  Keep the bases well conditioned.
                M_ = hermitian.to_numpy(inst["basis"]["M"], force_complex=True)
                if np.linalg.norm(M_, np.inf) * np.linalg.norm(np.linalg.inv(M_), np.inf) > 150:
                    continue
            break
        except Regenerate:
            continue
    else:
        raise Regenerate("no instance")
    # spectrum: explicit levels {0, 2} (one per explicit block, possibly degenerate inside),
    # implicit levels from {1, 4, -2}: every eliminated gap is +-2^k
    s = rng.choice([1, 2])
    exp_levels = [Fraction(0), Fraction(2 * s)]
    imp_levels = [Fraction(1 * s), Fraction(4 * s), Fraction(-2 * s)]
    E = []
    for b, sz in enumerate(exp_sizes):
        E += [exp_levels[b]] * sz
    if nexp_blocks == 1 and exp_sizes[0] >= 2 and (interleaved or rng.random() < 0.75):
        # several levels inside ONE explicit block, supplied in arbitrary (not ascending) order and with
        # degenerate partners that are not neighbours: (2s, 0), (2s, 0, 2s), (0, 2s, 0), ...
        # (the gap 2s inside the block is dyadic too, so the block may also be fully diagonalised)
        pats = {2: [(1, 0), (0, 1), (1, 0)], 3: [(1, 0, 1), (0, 1, 0), (1, 1, 0), (1, 0, 0), (0, 1, 1)]}[exp_sizes[0]]
        if interleaved:
            pats = [(1, 0, 1), (1, 0, 0), (1, 1, 0)]     # not ascending; the first with interleaved partners
        E = [exp_levels[q] for q in rng.choice(pats)]
    E += [rng.choice(imp_levels) for _ in range(dB)]
    inst["E"] = E
    if rng.random() < 0.4:
        inst["fdkind"], inst["fd_blocks"] = "tuple", sorted(rng.sample(range(nexp_blocks), rng.randint(1, nexp_blocks)))
    if not hermitian.well_posed(inst):
        raise Regenerate("ill posed")
    return inst


def snap_res(x, p, bits, tol):
    x = complex(x)
    out = []
    for v in (x.real, x.imag):
        if not np.isfinite(v):
            raise NonFinite(repr(x))
        q = Fraction(v)
        if q.denominator.bit_length() > bits:
            s = Fraction(round(v * 2**bits), 2**bits)
            if abs(float(s) - v) > tol * max(1.0, abs(v)):
                raise hermitian.NotRepresentable(f"{v!r} not within {tol} of a multiple of 2^-{bits}")
            q = s
        out.append(red_frac(q, p))
    return out


def run_implicit(inst, p, mode):
    """The implicit run: only the explicit subspaces are supplied."""
    import pymablock
    from pymablock.series import one, zero
    from scipy import sparse

    H = hermitian.concrete_hamiltonian(inst)
    k = inst["k"]
    H = {n: (sparse.csr_array(v) if (n == (0,) * k or mode.get("sparse_terms")) else v) for n, v in H.items()}
    des = hermitian.designation(inst)["subspace_eigenvectors"]
    pairs = inst["basis"]["kind"] == "pairs"
    vecs = [(np.ascontiguousarray(v[0]), np.ascontiguousarray(v[1])) if pairs else np.ascontiguousarray(v)
            for v in des[:-1]]
    kw = {}
    bits, tol = 40, 1e-9
    if mode["solver"] == "kpm":
        kw = dict(direct_solver=False, solver_options=dict(atol=mode["atol"], max_moments=50000))
        if mode.get("aux"):
            # hybrid KPM: some exactly known eigenvectors of the implicit part are handled exactly
            nexp_ = sum(inst["sizes"][:-1])
            Qf = hermitian.to_numpy(inst["basis"]["M"], force_complex=inst["vtype"] == "numpy_complex")
            naux = min(mode["aux"], inst["sizes"][-1] - 1)
            if naux > 0:
                kw["solver_options"]["auxiliary_vectors"] = np.ascontiguousarray(Qf[:, nexp_:nexp_ + naux])
        # orders <= 2: the true values are dyadic with denominators up to about 2^12 (gaps 1..8, entries
        # in halves, the dyadic unitary).  Observed KPM errors reach ~10 * atol * |value| at second order
        # (5e-7 on a value of 5 with atol = 1e-8); the grid 2^-16 has half-spacing 7.6e-6, so the snap
        # still lands on the true value with a margin of more than an order of magnitude, and anything
        # further away than 400 * atol * max(1, |value|) is rejected before snapping.
        bits, tol = 16, 400 * mode["atol"]
    elif mode.get("nonhermitian"):
        # biorthogonal integer bases are not unitary: the sparse LU solves carry rounding errors of 1e-13..1e-12,
        # more than half the spacing of the 2^-40 grid.  True values have denominators <= 2^12 at these orders
        # (gaps 1..8, entries in halves, unimodular integer bases): snap to 2^-28 (half-spacing 1.9e-9)
        bits, tol = 28, 1e-9
    elif mode["solver"] == "direct_opts":
        kw = dict(solver_options=dict(eigenvalue_atol=1e-10))
    fd = hermitian.fd_argument(inst)
    with warnings.catch_warnings():
        warnings.simplefilter("ignore")
        Ht, U, Ud = pymablock.block_diagonalize(H, subspace_eigenvectors=vecs, fully_diagonalize=fd,
                                                hermitian=inst.get("hermitian", True), **kw)
    sizes = inst["sizes"]
    nbx = len(sizes) - 1
    d = inst["d"]
    nexp = sum(sizes[:-1])
    offs = np.concatenate(([0], np.cumsum(sizes[:-1])))
    Q = hermitian.to_numpy(inst["basis"]["M"], force_complex=True)
    Qi = hermitian.to_numpy(inst["basis"]["Mi"], force_complex=True)
    QB = Q[:, nexp:]             # right vectors of the implicit part
    LBd = Qi[nexp:, :]           # L_B^dagger (= Q_B^dagger for a unitary basis)
    P = QB @ LBd
    out = []
    with warnings.catch_warnings():
        warnings.simplefilter("ignore")
        for n in order_seq(k, inst["N"]):
            rec = {}
            for name, S in (("Ht", Ht), ("U", U), ("Ud", Ud)):
                full = np.zeros((nexp + d, nexp + d), dtype=complex)
                for i in range(nbx + 1):
                    for j in range(nbx + 1):
                        v = S[(i, j, *n)]
                        r0 = offs[i] if i < nbx else nexp
                        c0 = offs[j] if j < nbx else nexp
                        rs = sizes[i] if i < nbx else d
                        cs = sizes[j] if j < nbx else d
                        if v is zero:
                            continue
                        if v is one:
                            blk = P if i == nbx else np.eye(rs)
                        elif sparse.issparse(v):
                            blk = v.toarray()
                        elif isinstance(v, np.ndarray):
                            blk = v
                        else:
                            blk = v @ np.eye(cs)
                        if blk.shape != (rs, cs):
                            raise ValueError(f"{name}{(i, j, n)} has shape {blk.shape}, expected {(rs, cs)}")
                        full[r0:r0 + rs, c0:c0 + cs] = blk
                rec[name] = [[snap_res(full[a, b], p, bits, tol) for b in range(nexp + d)] for a in range(nexp + d)]
            out.append(rec)
    T = np.zeros((nexp + d, d), dtype=complex)
    T[:nexp, :nexp] = np.eye(nexp)
    T[nexp:, nexp:] = QB
    Ti = np.zeros((d, nexp + d), dtype=complex)
    Ti[:nexp, :nexp] = np.eye(nexp)
    Ti[nexp:, nexp:] = LBd
    return dict(d=nexp + d, ords=[list(n) for n in order_seq(k, inst["N"])], out=out), T, Ti


def _job(args):
    seed, idx, p, mode = args[:4]
    spectrum, prop = (args[4], args[5]) if len(args) > 4 else (0, "C06")
    rng = common.rng_for(seed, "C06", idx)
    for _ in range(30):
        try:
            # KPM outputs are snapped to a 2^-16 grid: keep the true denominators well below it
            inst = make_instance(rng, herm=not mode.get("nonhermitian"), max_order=2 if mode["solver"] == "kpm" else 3,
                                 interleaved=bool(mode.get("interleaved")))
            twin_sess = hermitian.make_session(inst, idx + 1, p, spectrum=spectrum)
            A = dict(d=inst["d"], ords=twin_sess["ords"], out=twin_sess["out"])
            B, T, Ti = run_implicit(inst, p, mode)
            rel = dict(kind="basis", T=common.red_matrix(T, p), Ti=common.red_matrix(Ti, p))
            ses = dict(sid=idx + 1, prop=prop, rel=rel, A=A, B=B)
            return ("ok", idx, ses, twin_sess, dict(instance=hermitian.describe(inst), mode=mode))
        except Regenerate:
            continue
        except (NonFinite, hermitian.NotRepresentable) as e:
            return ("bad_value", idx, f"{type(e).__name__}: {e}", None, dict(mode=mode))
        except Exception as e:  # noqa: BLE001
            return ("crash", idx, f"{type(e).__name__}: {e}\n{traceback.format_exc(limit=6)}", None, dict(mode=mode))
    return ("skip", idx, "no instance", None, dict(mode=mode))


def related_stage(seed, base, p, prop, modes, n):
    """Implicit-mode stage for the checks of OTHER properties (C05, C15): the implicit run of a problem must equal,
    under the embedding of the complete basis, the run of its complete-basis twin -- for explicit vectors listed
    in any order inside a subspace, (R, L) pairs, dense / sparse terms.  Returns (violations, summary)."""
    from . import core_relations

    jobs = [(seed, base + i, p, modes[i % len(modes)], 0, prop) for i in range(n)]
    with mp.get_context("fork").Pool(16) as pool:
        items = pool.map(_job, jobs, chunksize=1)
    violations, rels, metas = [], [], {}
    for it in items:
        if it[0] == "ok":
            rels.append(it[2])
            metas[it[2]["sid"]] = it[4]
        elif it[0] in ("bad_value", "crash"):
            violations.append(dict(kind="implicit_" + it[0], detail=it[2][:500], **it[4]))
    summary = dict(pairs=len(rels), of=n, states=0, transitions=0,
                   rule="implicit run (explicit vectors in arbitrary listing order, (R, L) pairs in non-Hermitian "
                        "mode) vs the run of the complete-basis twin, equal under the embedding")
    if rels:
        r, done, fails = core_relations.validate(rels, p)
        summary["states"], summary["transitions"] = r.distinct, r.generated
        for sid, f in fails.items():
            violations.append(dict(kind="implicit_run_differs_from_complete_basis_twin",
                                   clauses=sorted(set(f))[:10], **metas[sid]))
    return violations, summary


MODES = [dict(solver="direct"), dict(solver="direct", sparse_terms=True), dict(solver="direct_opts"),
         dict(solver="kpm", atol=1e-8),
         dict(solver="kpm", atol=1e-8, aux=2),
         # non-Hermitian problems: biorthogonal (R, L) pairs for the explicit blocks, hermitian=False
         dict(solver="direct", nonhermitian=True)]


def run(pid, tier, seed, replay=None):
    t0 = time.time()
    p = common.P1
    quick = tier == "quick"
    n = 42 if quick else 480
    jobs = [(seed, i, p, MODES[i % len(MODES)]) for i in range(n)]
    with mp.get_context("fork").Pool(16) as pool:
        items = pool.map(_job, jobs, chunksize=1)
    sessions, twins, metas, violations, crashes = [], [], {}, [], []
    for it in items:
        if it[0] == "ok":
            sessions.append(it[2])
            twins.append(it[3])
            metas[it[2]["sid"]] = it[4]
        elif it[0] == "bad_value":
            violations.append(dict(kind="value", detail=it[2], **it[4]))
        elif it[0] == "crash":
            crashes.append(dict(error=it[2][:500], **it[4]))
            violations.append(dict(kind="exception", error=it[2][:500], **it[4]))
    stats = dict(states=0, transitions=0)
    # the twins are judged against the reference
    twin_fail = {}
    # (Hermitian twins only: the non-Hermitian explicit computation is C05's subject, with its known finding;
    # C06 demands implicit = explicit for them all the same)
    twins = [t for t in twins if not metas[t["sid"]]["mode"].get("nonhermitian")]
    if twins:
        r, done, fails, ill = core_hermitian.validate_sessions(twins, p)
        stats["states"] += r.distinct
        stats["transitions"] += r.generated
        twin_fail = {sid: f for sid, f in fails.items() if f}
    if sessions:
        r, done, fails = core_relations.validate(sessions, p)
        stats["states"] += r.distinct
        stats["transitions"] += r.generated
        for s in sessions:
            if fails.get(s["sid"]):
                violations.append(dict(kind="implicit_differs_from_explicit", clauses=sorted(set(fails[s["sid"]]))[:10],
                                       **metas[s["sid"]]))
    for sid, f in twin_fail.items():
        violations.append(dict(kind="explicit_twin_differs_from_reference", clauses=sorted(set(f))[:10], **metas[sid]))
    control = None
    if sessions and replay is None:
        bad = copy.deepcopy(sessions[0])
        bad["sid"] = 1
        pos = len(bad["B"]["out"]) - 1
        bad["B"]["out"][pos]["U"][0][-1][0] = (bad["B"]["out"][pos]["U"][0][-1][0] + 1) % p
        _, _, cf = core_relations.validate([bad], p, workers=2)
        if not cf.get(1):
            raise MachineryError("negative control accepted")
        control = dict(corrupted="one residue of an explicit x implicit block of U", rejected_by=sorted({c for c, _ in cf[1]}))
    lines, seen = [], set()
    for v in violations:
        key = (v["kind"], str(v.get("mode")), v.get("error", "")[:60])
        if key in seen or len(lines) >= 10:
            continue
        seen.add(key)
        path = common.write_replay(pid, f"{tier}_{seed}_{len(lines)}", dict(property=pid, **v))
        lines.append(f"VIOLATION property={pid} replay={path}")
    per_mode = {}
    for m in metas.values():
        key = m["mode"]["solver"] + ("+sparse" if m["mode"].get("sparse_terms") else "") + ("+aux" if m["mode"].get("aux") else "") + (
            "+nonhermitian" if m["mode"].get("nonhermitian") else "")
        per_mode[key] = per_mode.get(key, 0) + 1
    coverage = dict(
        states=max(stats["states"], 1), transitions=max(stats["transitions"], 1),
        traces_validated_against_impl=len(sessions) + len(twins),
        samples=[metas[s["sid"]] for s in sessions[:2]] or [dict(note="no session", crashes=crashes[:2])],
        evaluations=len(sessions), distinct_nontrivial=len({str(m["instance"]) for m in metas.values()}),
        rule="pair = (instance with dyadic unitary eigenbasis, solver mode); explicit twin validated against "
             "LeastAction, implicit run validated against the embedding of the twin",
        pairs_per_mode=per_mode, crashes=len(crashes), negative_control=control, exhaustive=False)
    common.write_evidence(pid, tier, seed, coverage, time.time() - t0, len(violations),
                          ["alpha_snap: direct-solver outputs within 1e-9 of a multiple of 2^-40, KPM outputs (atol=1e-8) within 400*atol of "
                           "a multiple of 2^-16 (instances have power-of-two eliminated gaps, so the true values are dyadic)",
                           "non-Hermitian implicit mode with the direct solver only (the KPM solver does not support "
                           "distinct left and right vectors)"])
    return lines, len(violations)
