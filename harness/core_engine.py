"""Checks C10 (history independence / no mutation), C11 (exception safety),
C12 (laziness and causality): Engine.tla.

  Mode A  MC_Engine: every interleaving of a `main`-shaped toy recurrence,
          <= MaxRequests requests (cells and slices), <= MaxFaults faults of every
          class at every point, deletion at any time: protocol invariants.
  Mode B  Session.tla: TLC enumerates / simulates request schedules, the harness
          replays them into the real block_diagonalize (and, for C11, injects a
          fault at EVERY callback invocation of the clean run, every class).
  Mode C  Trace_Engine: every recorded event stream is validated against the
          actions of Engine.tla; values are compared with an undisturbed run,
          whose values are themselves validated against LeastAction.tla.
"""

from __future__ import annotations

import collections
import copy
import multiprocessing as mp
import time

from . import common, core_hermitian, engine_run, hermitian
from .common import MachineryError, Regenerate, order_seq

ENGINE_CFG = (common.SPEC / "Trace_Engine.cfg").read_text()
MC_CFG = (common.SPEC / "MC_Engine.cfg").read_text()

SESSION_CFG = """CONSTANT NB = {nb}
CONSTANT Orders = {orders}
CONSTANT Pairs = {pairs}
CONSTANT Kinds = {kinds}
CONSTANT Comps = {comps}
CONSTANT L = {L}
INIT Init
NEXT Next
INVARIANT Emit
CHECK_DEADLOCK FALSE
"""


def tla_set(xs):
    return "{" + ", ".join(str(x) for x in sorted(xs)) + "}"


def tlc_schedules(nb, orders, pairs, kinds, comps, L, *, simulate=None, seed=0):
    """Mode B: ask TLC for the behaviours of Session.tla."""
    cfg = SESSION_CFG.format(nb=nb, orders=tla_set(orders), pairs=tla_set(i * nb + j for i, j in pairs),
                             kinds=tla_set(kinds), comps=tla_set(comps), L=L)
    extra = []
    workers = 4
    if simulate:
        extra = ["-simulate", f"num={simulate}", "-depth", str(L + 1), "-seed", str(seed + 1)]
        workers = 1
    res = common.run_tlc("Session", cfg, workers=workers, timeout=600, extra=extra)
    scheds = []
    for t in res.lines("SCHED"):
        flat = t[1:]
        scheds.append([tuple(flat[a:a + 6]) for a in range(0, len(flat), 6)])
    if not scheds:
        raise MachineryError("Session.tla produced no schedule:\n" + res.out[-1500:])
    # de-duplicate, keep order
    seen, out = set(), []
    for s in scheds:
        if tuple(s) not in seen:
            seen.add(tuple(s))
            out.append(s)
    return out, res


def concretise(sched, inst):
    """Abstract request <<comp, out, i, j, n, kind>> -> (comp, (out, i, j, ords))."""
    k, N = inst["k"], inst["N"]
    out = []
    for (c, o, i, j, n, kind) in sched:
        n = min(n, N)
        cands = [m for m in order_seq(k, N) if sum(m) == n]
        m = cands[(i + 2 * j + 3 * o + n) % len(cands)]
        ords = list(m)
        if kind == 1:
            ords[0] = ("s", m[0] + 1)
        out.append((c, (engine_run.OUT_NAMES[o], i, j, tuple(ords))))
    return out


def full_reread(inst, comp=0):
    nb = len(inst["sizes"])
    return [(comp, (o, i, j, n)) for n in order_seq(inst["k"], inst["N"])
            for o in engine_run.OUT_NAMES for i in range(nb) for j in range(nb)]


def validate(sessions, workers=16, timeout=2400):
    res = common.run_tlc("Trace_Engine", ENGINE_CFG, trace=sessions, workers=workers, timeout=timeout)
    acc = {t[1]: t for t in res.lines("ACCEPT")}
    rej = {t[1]: t for t in res.lines("REJECT")}
    missing = {s["sid"] for s in sessions} - set(acc) - set(rej)
    if missing or res.rc != 0:
        raise MachineryError(f"Trace_Engine gave no verdict for sessions {sorted(missing)[:5]} rc={res.rc}\n"
                             + res.out[-2500:])
    return res, acc, rej


# ----------------------------------------------------------------------------
# instance drawing for the engine checks (float value types: in-place mutation
# can only bite on ndarrays)
# ----------------------------------------------------------------------------
def draw_instance(rng, *, nb=None, k=None, N=None, hermitian_mode=True, custom=False):
    for _ in range(50):
        try:
            d = rng.choice([3, 4]) if nb != 3 else rng.choice([3, 4, 5])
            sizes = rng.choice([c for c in hermitian.compositions(d) if len(c) == (nb or rng.choice([2, 2, 3]))])
            vt = rng.choice(["numpy", "numpy_complex", "sparse"])
            fdkind = "none" if custom else None
            # non-Hermitian problems: complex unperturbed levels in half of the instances (the two
            # orientations (i, j) / (j, i) of a block pair then have different denominators)
            cE = (not hermitian_mode) and not custom and vt != "sparse" and rng.random() < 0.5
            return hermitian.gen_instance(rng, d=d, sizes=sizes, k=k or rng.choice([1, 1, 2]), N=N,
                                          vtype="numpy_complex" if cE else vt, fdkind=fdkind,
                                          hermitian=hermitian_mode, complex_E=cE)
        except Regenerate:
            continue
    raise MachineryError("could not draw an engine instance")


def _job(args):
    """One session in a worker process."""
    kind, inst_desc, sched, p, sid, opts = args
    inst = hermitian.from_description(inst_desc)
    inst["complex"] = True
    custom = opts.get("custom", False) or opts.get("input_kind") == "algebra"
    try:
        truth, _ = engine_run.fresh_truth(inst, p, custom_solver=custom)
    except (common.NonFinite, hermitian.NotRepresentable) as e:
        # a non-finite undisturbed value is a C20/C16 matter, not an engine one
        return dict(sid=sid, skipped=f"{type(e).__name__}: {e}")
    if opts.get("alter"):
        # C12 two-run relation: terms not below the requested order are altered;
        # the value must stay the one of the ORIGINAL instance
        inst2 = copy.deepcopy(inst)
        n = opts["alter"]
        for m in list(inst2["terms"]):
            if not all(a <= b for a, b in zip(m, n)):
                inst2["terms"][m] = [[(x * 3 + 1, y * 2) if i <= j else (x * 3 + 1, -y * 2)
                                      for j, (x, y) in enumerate(row)] for i, row in enumerate(inst2["terms"][m])]
                # keep it Hermitian: symmetrise
                d = inst2["d"]
                mm = inst2["terms"][m]
                for i in range(d):
                    for j in range(i):
                        mm[i][j] = (mm[j][i][0], -mm[j][i][1])
                    mm[i][i] = (mm[i][i][0], 0 * mm[i][i][1])
        run_inst = inst2
    else:
        run_inst = inst
    ses = engine_run.run_schedule(run_inst, sched, p, truth, sid, plan=opts.get("plan"),
                                  custom_solver=custom, ncomp=opts.get("ncomp", 1),
                                  input_kind=opts.get("input_kind", "lazy"),
                                  recheck=opts.get("recheck", 3))
    return ses


def count_callbacks(inst, sched, p, custom, input_kind="lazy"):
    ses_inj = engine_run.Injector()
    # clean traced run is not needed for counting: drive untraced
    import warnings

    outs, _ = engine_run.build(inst, ses_inj, custom_solver=custom, input_kind=input_kind)
    series = dict(zip(engine_run.OUT_NAMES, outs))
    for (_, req) in sched:
        with warnings.catch_warnings():
            warnings.simplefilter("ignore")
            series[req[0]][engine_run.py_index(req)]
    return ses_inj.count, ses_inj.log


def run(pid, tier, seed, replay=None):
    t0 = time.time()
    p = common.P1
    quick = tier == "quick"
    rng = common.rng_for(seed, pid, "engine")
    stats = dict(states=0, transitions=0, traces=0)
    samples, jobs, meta = [], [], {}
    sid = 0

    def add(kind, inst, sched, **opts):
        nonlocal sid
        sid += 1
        jobs.append((kind, hermitian.describe(inst), sched, p, sid, opts))
        meta[sid] = dict(kind=kind, instance=hermitian.describe(inst), schedule=sched, opts=opts)

    mode_a = None
    if replay is not None:
        m = replay["session"]
        inst = hermitian.from_description(m["instance"])
        sched = [(c, (r[0], r[1], r[2], tuple(tuple(x) if isinstance(x, list) else x for x in r[3])))
                 for c, r in m["schedule"]]
        opts = dict(m["opts"])
        if opts.get("plan"):
            opts["plan"] = {int(a): b for a, b in opts["plan"].items()}
        if opts.get("alter"):
            opts["alter"] = tuple(opts["alter"])
        add(m["kind"], inst, sched, **opts)
    else:
        # ---- Mode A ---------------------------------------------------------
        cfg = MC_CFG
        if quick and pid != "C11":
            cfg = cfg.replace("CONSTANT MaxRequests = 3", "CONSTANT MaxRequests = 2")
        if not quick:
            cfg = cfg.replace("CONSTANT MaxFaults = 1", "CONSTANT MaxFaults = 2")
        res_a = common.run_tlc("MC_Engine", cfg, timeout=3000)
        if "No error has been found" not in res_a.out:
            raise MachineryError("Mode A (MC_Engine) failed:\n" + res_a.out[-3000:])
        stats["states"] += res_a.distinct
        stats["transitions"] += res_a.generated
        mode_a = dict(spec="MC_Engine", distinct_states=res_a.distinct, states_generated=res_a.generated,
                      wall_s=round(res_a.wall, 1), exhaustive=True,
                      invariants=["TypeOK", "InvPendingIsStack", "InvIdleClean", "InvOnceWhileCached",
                                  "InvInputsOnce", "InvNoSpuriousRecursion", "InvExcClass",
                                  "InvReturnedDone", "InvCausal"])
        # liveness of the protocol under weak fairness: every request comes back to the user
        live_cfg = (common.SPEC / "MC_Engine_live.cfg").read_text()
        if not quick:
            live_cfg = live_cfg.replace("MaxRequests = 1", "MaxRequests = 2")
        res_l = common.run_tlc("MC_Engine", live_cfg, timeout=3000)
        if "No error has been found" not in res_l.out:
            raise MachineryError("liveness (MC_Engine_live) failed:\n" + res_l.out[-3000:])
        stats["states"] += res_l.distinct
        stats["transitions"] += res_l.generated
        mode_a["liveness"] = dict(property="EveryRequestReturns", fairness="WF_evars(ENext)",
                                  distinct_states=res_l.distinct, wall_s=round(res_l.wall, 1))
        # ---- Mode B: schedules from Session.tla -------------------------------
        if pid == "C10":
            pairs2 = [(0, 0), (0, 1), (1, 1)]
            ex, r1 = tlc_schedules(2, [1, 2], pairs2 if not quick else [(0, 0), (0, 1)], [0, 1], [0], 2)
            sim, r2 = tlc_schedules(3, [0, 1, 2, 3], [(i, j) for i in range(3) for j in range(3)], [0, 1], [0, 1],
                                    6, simulate=40 if quick else 600, seed=seed)
            stats["states"] += r1.distinct + r2.generated
            stats["transitions"] += r1.generated + r2.generated
            insts2 = [draw_instance(rng, nb=2, k=1, N=3) for _ in range(2 if quick else 6)]
            if quick:
                ex = rng.sample(ex, min(len(ex), 60))
            for n_, s in enumerate(ex):
                inst = insts2[n_ % len(insts2)]
                add("exhaustive-L2", inst, concretise(s, inst))
            for n_, s in enumerate(sim):
                hm = n_ % 4 != 3
                if n_ % 7 == 5:
                    # sympy matrices behind the lazily defined series: history independence of the symbolic path
                    inst = draw_instance(rng, nb=2, N=2, hermitian_mode=hm)
                    if inst["d"] <= 4:
                        add("simulated-L6-sympy" + ("" if hm else "-nonhermitian"), inst,
                            concretise([x for x in s if x[2] < 2 and x[3] < 2], inst), ncomp=2,
                            input_kind="lazy_sympy")
                        continue
                if n_ % 5 == 4:
                    # opaque algebra elements, pre-blocked lazy series, custom solver
                    inst = draw_instance(rng, nb=3, N=3, hermitian_mode=hm, custom=True)
                    add("simulated-L6-algebra" + ("" if hm else "-nonhermitian"), inst, concretise(s, inst),
                        ncomp=2, input_kind="algebra", custom=True)
                    continue
                inst = draw_instance(rng, nb=3, N=3, hermitian_mode=hm)
                add("simulated-L6" + ("" if hm else "-nonhermitian"), inst, concretise(s, inst), ncomp=2,
                    input_kind="lazy" if n_ % 3 else "dict" if n_ % 2 else "data_series")
        elif pid == "C11":
            n_inst = 3 if quick else 9
            for q in range(n_inst):
                custom = q % 2 == 1
                # every third instance: the Hamiltonian's elements are opaque algebra elements
                # whose product is a user callback too (fault at every multiplication)
                ikind = "algebra" if q % 3 == 2 else "lazy"
                if ikind == "algebra":
                    custom = True
                inst = draw_instance(rng, nb=2 if q % 3 else 3, k=1 if q % 2 == 0 else 2,
                                     N=3 if quick else None, custom=custom)
                scheds, r1 = tlc_schedules(len(inst["sizes"]), [2, 3], [(0, 0), (0, 1), (1, 0)], [0, 1], [0], 2,
                                           simulate=2 if quick else 4, seed=seed + q)
                stats["states"] += r1.generated
                stats["transitions"] += r1.generated
                for s in scheds[: (1 if quick else 3)]:
                    sched = concretise(s, inst)
                    # always one multi-element (slice) request on uncached elements first: a fault while some
                    # elements of the request are still to be evaluated
                    sched = [(0, ("Ht", 0, 0, (("s", min(inst["N"], 2) + 1),) + (0,) * (inst["k"] - 1)))] + sched
                    if ikind == "algebra":
                        # make sure element products happen: a top-order element of H_tilde
                        top = max(order_seq(inst["k"], inst["N"]), key=lambda m: (sum(m), min(m)))
                        sched = sched + [(0, ("Ht", 0, 0, tuple(top)))]
                    K, _ = count_callbacks(inst, sched, p, custom, ikind)
                    tail = full_reread(inst)
                    classes = ["Exception", "RuntimeError", "KeyboardInterrupt"]
                    add("clean", inst, sched + tail, custom=custom, input_kind=ikind)
                    for c in range(1, K + 1):
                        for cls in classes:
                            add("single-fault", inst, sched + tail, plan={c: cls}, custom=custom, recheck=0,
                                input_kind=ikind)
                    # repeated faults: pairs of injection points (every class pairing sampled)
                    pairs = [(a, b) for a in range(1, K + 1) for b in range(a + 1, K + 2)]
                    for (a, b) in rng.sample(pairs, min(len(pairs), 6 if quick else 40)):
                        add("double-fault", inst, sched + tail,
                            plan={a: rng.choice(classes), b: rng.choice(classes)}, custom=custom, recheck=0,
                            input_kind=ikind)
        elif pid == "C12":
            sim, r2 = tlc_schedules(2, [0, 1, 2, 3], [(0, 0), (0, 1), (1, 0), (1, 1)], [0, 1], [0],
                                    4, simulate=30 if quick else 400, seed=seed)
            stats["states"] += r2.generated
            stats["transitions"] += r2.generated
            for n_, s in enumerate(sim):
                inst = draw_instance(rng, nb=2 if n_ % 2 else 3, k=[1, 2, 3][n_ % 3], N=3)
                sched = concretise([x for x in s if x[2] < len(inst["sizes"]) and x[3] < len(inst["sizes"])], inst)
                add("lazy-causal", inst, sched)
                if n_ % 5 == 1:
                    # the same laziness / causality clauses on the SYMBOLIC code path (sympy matrices)
                    inst_s = draw_instance(rng, nb=2, k=inst["k"], N=2)
                    if inst_s["d"] <= 4:
                        add("lazy-causal-sympy", inst_s, concretise(
                            [x for x in s if x[2] < 2 and x[3] < 2], inst_s), input_kind="lazy_sympy", recheck=0)
                if n_ % 5 == 0:
                    # the lazily defined Hamiltonian handing out whole terms as NESTED BLOCK LISTS
                    inst_b = draw_instance(rng, nb=2 if n_ % 2 else 3, k=[1, 2][(n_ // 5) % 2], N=2)
                    add("lazy-causal-blocklists", inst_b, concretise(
                        [x for x in s if x[2] < len(inst_b["sizes"]) and x[3] < len(inst_b["sizes"])], inst_b),
                        input_kind="lazy_blocklists", recheck=0)
                if n_ % 5 == 3:
                    # the same clauses in IMPLICIT mode (incomplete eigenvectors, direct solver): requests on the
                    # explicit blocks only
                    for _try in range(12):
                        inst_i = draw_instance(rng, nb=[2, 3][_try % 2], k=[1, 2][n_ % 2], N=2)
                        if inst_i["sizes"][-1] >= 2:
                            break
                    nbi = len(inst_i["sizes"])
                    if inst_i["fdkind"] == "dict" or (nbi - 1) in inst_i["fd_blocks"]:
                        inst_i["fdkind"], inst_i["fd_blocks"], inst_i["masks"] = "none", [], {}
                    if inst_i["sizes"][-1] >= 2:
                        add("lazy-causal-implicit", inst_i, concretise(
                            [x for x in s if x[2] < nbi - 1 and x[3] < nbi - 1], inst_i),
                            input_kind="lazy_implicit", recheck=0)
                if n_ % 4 == 1:
                    # a lazily defined series that is ALREADY BLOCKED (shape (nb, nb), plain arrays), with a fully
                    # diagonalised block: H[(i, i, n)] has two readers (H'_diag and the masked H'_offdiag)
                    inst_k = draw_instance(rng, nb=2 if n_ % 8 == 1 else 3, k=[1, 2][(n_ // 4) % 2], N=3)
                    if inst_k["fdkind"] != "dict":
                        inst_k["fdkind"], inst_k["fd_blocks"], inst_k["masks"] = "tuple", sorted(
                            {0, *(inst_k["fd_blocks"] if inst_k["fdkind"] == "tuple" else [])}), {}
                    add("lazy-causal-blocked", inst_k, concretise(
                        [x for x in s if x[2] < len(inst_k["sizes"]) and x[3] < len(inst_k["sizes"])], inst_k),
                        input_kind="lazy_blocked", recheck=0)
                if n_ % 4 == 3:
                    inst_a = draw_instance(rng, nb=len(inst["sizes"]), k=inst["k"], N=3, custom=True)
                    add("lazy-causal-algebra", inst_a, concretise(
                        [x for x in s if x[2] < len(inst_a["sizes"]) and x[3] < len(inst_a["sizes"])], inst_a),
                        input_kind="algebra", custom=True)
                # two-run relation on the first scalar request
                scal = [r for r in sched if not any(isinstance(o, tuple) for o in r[1][3])]
                if scal:
                    add("altered-terms-dict", inst, [scal[0]], alter=scal[0][1][3], input_kind="dict", recheck=0)
                    add("altered-terms-lazy", inst, [scal[0]], alter=scal[0][1][3], recheck=0)

    # ---- replay into the real code (parallel) ---------------------------------
    with mp.get_context("fork").Pool(16) as pool:
        sessions = pool.map(_job, jobs, chunksize=2)

    skipped = [s for s in sessions if "skipped" in s]
    sessions = [s for s in sessions if "skipped" not in s]

    # ---- the undisturbed values are themselves judged by LeastAction ----------
    truth_checked = 0
    if replay is None:
        seen = {}
        for sid_, m in meta.items():
            if m["instance"]["hermitian"] and not m["opts"].get("custom"):
                seen.setdefault(str(m["instance"]), m["instance"])
        tsess = []
        for n_, desc in enumerate(list(seen.values())[: (8 if quick else 64)]):
            inst = hermitian.from_description(desc)
            tsess.append(hermitian.make_session(inst, n_ + 1, p, spectrum=0))
        if tsess:
            r, done, fails, ill = core_hermitian.validate_sessions(tsess, p)
            stats["states"] += r.distinct
            stats["transitions"] += r.generated
            truth_checked = len(done)
            if fails:
                raise MachineryError(f"undisturbed values disagree with the reference: {fails}")

    # ---- Mode C ----------------------------------------------------------------
    violations = []
    batch = 200
    for b in range(0, len(sessions), batch):
        chunk = sessions[b:b + batch]
        res, acc, rej = validate(chunk)
        stats["states"] += res.distinct
        stats["transitions"] += res.generated
        stats["traces"] += len(acc) + len(rej)
        for s in chunk:
            if s["sid"] in rej:
                t = rej[s["sid"]]
                violations.append(dict(session=meta[s["sid"]], rejected_at_event=t[2], event=t[3], clause=t[4]))
    # ---- C10 on operator-valued (second-quantised) computations: three request histories ------------
    sq_stage = None
    if pid == "C10" and replay is None:
        from . import core_nof, sq_history

        n_sq = 6 if quick else 40
        fs = []
        for q in range(n_sq):
            try:
                fs.append(sq_history.build_session(2000 + q, seed))
            except Exception as e:  # noqa: BLE001
                violations.append(dict(session=dict(kind="second-quantised-history", q=q), clause="exception",
                                       error=f"{type(e).__name__}: {e}"))
        if fs:
            fres, fdone, ffails = core_nof.validate([x[0] for x in fs])
            stats["states"] += fres.distinct
            stats["transitions"] += fres.generated
            for ses_, meta_ in fs:
                if ffails.get(ses_["sid"]):
                    violations.append(dict(session=meta_, clause="C10.value_depends_on_request_history",
                                           failing=[(c, ln, meta_["order"][(ln - 1) // 2], ["forward", "reverse"][(ln - 1) % 2])
                                                    for c, ln in sorted(ffails[ses_["sid"]])][:8]))
        sq_stage = dict(sessions=len(fs), rule="three histories of one operator-valued computation (forward order, reverse order, "
                        "each element alone in a fresh computation); TLC (Trace_Fock, `eq`) decides that the elements denote "
                        "the same operator on a Fock window")
    if sessions and not samples:
        s0 = sessions[0]
        samples.append(dict(session=meta[s0["sid"]], events=len(s0["ev"]),
                            first_events=[{k: v for k, v in e.items() if k in ("t", "s", "i", "tag", "exc", "kind")}
                                          for e in s0["ev"][:12]]))
        if len(sessions) > 1:
            s1 = sessions[-1]
            samples.append(dict(session=meta[s1["sid"]], events=len(s1["ev"])))

    # ---- negative controls -------------------------------------------------------
    control = None
    if replay is None and sessions:
        control = negative_controls(sessions, rng)

    lines = []
    for i, v in enumerate(violations[:10]):
        path = common.write_replay(pid, f"{tier}_{seed}_{i}", dict(property=pid, **v))
        lines.append(f"VIOLATION property={pid} replay={path}")
    kinds = {}
    for m in meta.values():
        kinds[m["kind"]] = kinds.get(m["kind"], 0) + 1
    coverage = dict(
        states=max(stats["states"], 1), transitions=max(stats["transitions"], 1),
        traces_validated_against_impl=stats["traces"], samples=samples or [dict(note="none")],
        evaluations=len(sessions),
        distinct_nontrivial=len({(str(m["schedule"]), str(m["opts"]), str(m["instance"]["E"])) for m in meta.values()}),
        rule="session = (instance, request schedule from Session.tla, fault plan / altered terms); distinct by all three",
        events_validated=sum(len(s["ev"]) for s in sessions),
        session_kinds=kinds, input_kinds=dict(collections.Counter(m["opts"].get("input_kind", "lazy") for m in meta.values())),
        fault_points_by_callback=dict(collections.Counter(
            e["what"].split(",")[0].strip("('\"") for s in sessions for e in s["ev"] if e["t"] == "inject")),
        mode_a=mode_a, second_quantised_history_stage=sq_stage, sessions_skipped_nonfinite_truth=len(skipped), undisturbed_runs_validated_by_LeastAction=truth_checked,
        negative_controls=control, exhaustive=False,
    )
    common.write_evidence(pid, tier, seed, coverage, time.time() - t0, len(violations),
                          ["the harness-side tracer observes eval/pop of every BlockSeries created in the session; "
                           "cache hits are not observed",
                           "values are compared in GF(p^2) on dyadic instances (exact floats)",
                           "TLC/SANY 1.8.0, CommunityModules Json"])
    return lines, len(violations)


def negative_controls(sessions, rng):
    """Corrupted copies of accepted traces must be rejected, each for its own clause."""
    out = []
    base = next((s for s in sessions if any(e["t"] == "fail" for e in s["ev"])), None)
    plain = next((s for s in sessions if sum(1 for e in s["ev"] if e["t"] == "ret" and e["vals"]) >= 1), sessions[0])
    cases = []
    if base is not None:
        s = copy.deepcopy(base)
        idx = next(i for i, e in enumerate(s["ev"]) if e["t"] == "fail")
        del s["ev"][idx]
        s["sid"] = 1
        cases.append(("dropped-fail-event", s))
        s = copy.deepcopy(base)
        idx = next(i for i, e in enumerate(s["ev"]) if e["t"] == "raise")
        s["ev"][idx]["pending"] = 1
        s["sid"] = 2
        cases.append(("inflight-marker-left", s))
    s = copy.deepcopy(plain)
    idx = next(i for i, e in enumerate(s["ev"]) if e["t"] == "ret" and e["vals"])
    v = s["ev"][idx]["vals"][0]["v"]
    v[0][0][0] = (v[0][0][0] + 1) % common.P1
    s["sid"] = 3
    cases.append(("value+1", s))
    s = copy.deepcopy(plain)
    idx = next(i for i, e in enumerate(s["ev"]) if e["t"] == "end")
    s["ev"].insert(idx + 1, dict(s["ev"][idx - 1 if s["ev"][idx - 1]["t"] == "begin" else idx], t="begin"))
    s["sid"] = 4
    cases.append(("re-evaluation-of-cached-cell", s))
    res, acc, rej = validate([c[1] for c in cases], workers=4, timeout=600)
    for name, s in cases:
        if s["sid"] not in rej:
            raise MachineryError(f"negative control '{name}' was accepted")
        out.append(dict(control=name, rejected_with=rej[s["sid"]][4]))
    return out
