"""Check C05: the non-Hermitian mode (Similarity.tla).

  Mode A  MC_Similarity: the reference similarity solver satisfies the defining
          equations on every configuration within bounds (all asymmetric masks,
          complex energies, non-Hermitian terms).
  Mode C  Trace_Similarity: runs of block_diagonalize(..., hermitian=False) on
          non-Hermitian and Hermitian input (sympy exact, numpy dyadic; asymmetric
          masks; complex H_0 eigenvalues; explicit (R, L) biorthogonal bases) are
          validated clause by clause; on Hermitian input the Hermitian-mode outputs
          are logged in the same session and must coincide.
"""

from __future__ import annotations

import copy
from fractions import Fraction
import multiprocessing as mp
import time
import traceback

from . import common, hermitian
from .common import MachineryError, NonFinite, Regenerate

TRACE_CFG = """CONSTANT P = {p}
CONSTANT RawCfgs <- TraceRaw
INIT TInit
NEXT TNext
CHECK_DEADLOCK FALSE
INVARIANT TraceWellFormed
"""
MC_CFG = (common.SPEC / "MC_Similarity.cfg").read_text()


def _one(args):
    seed, idx, p, quick = args
    rng = common.rng_for(seed, "C05", "inst", idx)
    vtype = ["sympy", "numpy", "sympy", "numpy_complex", "sympy", "sparse"][idx % 6]
    herm_input = idx % 4 == 3
    for attempt in range(20):
        try:
            d = rng.choice([2, 3, 3, 4, 4] + ([] if quick else [5]))
            k = rng.choice([1, 1, 2])
            N = {1: rng.choice([3, 4]), 2: 3}[k]
            basis = rng.choice([None, None, "pairs"]) if vtype in ("sympy", "numpy", "numpy_complex") else None
            if herm_input and basis == "pairs":
                basis = None
            inst = hermitian.gen_instance(
                rng, d=d, k=k, N=N, vtype=vtype, hermitian=not herm_input and False or False,
                complex_E=(not herm_input) and rng.random() < 0.5, basis=basis,
                hermitian_terms=herm_input)
            inst["hermitian"] = False
            if idx % 8 in (5, 6) and not inst.get("large_offset") \
                    and not any(hermitian.epair(e)[1] != 0 for e in inst["E"]):
                # fixed stratum: the spectrum far from zero (level spacings 1e-6 of the levels) with the
                # largest block fully diagonalised (list form)
                big = max(range(len(inst["sizes"])), key=lambda b: inst["sizes"][b])
                inst["fdkind"], inst["fd_blocks"], inst["masks"] = "tuple", [big], {}
                # every OTHER block gets a single level: no kept pair is non-degenerate then, so the
                # instance lies outside the class of the known finding D1 and every clause is enforced
                E2 = list(inst["E"])
                for b in range(len(inst["sizes"])):
                    st = [i for i in range(inst["d"]) if inst["sub_idx"][i] == b]
                    if b != big:
                        for i in st:
                            E2[i] = E2[st[0]]
                # ... and the fully diagonalised block holds at least two DIFFERENT levels (power-of-two gaps
                # to everything it is eliminated against)
                stb = [i for i in range(inst["d"]) if inst["sub_idx"][i] == big]
                if len(stb) >= 2 and len({E2[i] for i in stb}) == 1:
                    others = {hermitian.epair(E2[i])[0] for i in range(inst["d"]) if i not in stb}
                    base = hermitian.epair(E2[stb[0]])[0]

                    def pow2(x):
                        x = abs(x)
                        return x != 0 and x.numerator & (x.numerator - 1) == 0 and x.denominator & (x.denominator - 1) == 0

                    cand = [base + c for c in (4, -4, 2, -2, 8, -8, 1, -1)
                            if all(pow2(base + c - o) for o in others)]
                    if not cand:
                        continue
                    E2[stb[1]] = cand[0] if not isinstance(E2[stb[1]], tuple) else (cand[0], Fraction(0))
                inst["E"] = E2
                hermitian.add_offset(inst)
                if not hermitian.well_posed(inst) or (inst["vtype"] != "sympy" and not hermitian.dyadic_gaps(inst)):
                    continue
            if herm_input:
                # symmetric masks only: the Hermitian mode must accept the same problem
                for b, m in inst["masks"].items():
                    inst["masks"][b] = m | m.T
                if not hermitian.well_posed(dict(inst, hermitian=True)):
                    continue
        except Regenerate:
            continue
        if idx % 6 == 2 and not inst.get("basis"):
            # the non-Hermitian Hamiltonian in the pre-blocked containers (nested block lists per term,
            # BlockSeries of blocks): the lower blocks are the user's, not adjoints of the upper ones
            inst["format"] = ["blockdict", "blocklist", "blockseries2"][(idx // 6) % 3]
        desc = hermitian.describe(inst)
        try:
            sess = hermitian.make_session(inst, idx + 1, p, spectrum=0)
            sess["hasH"] = 0
            sess["hout"] = []
            if herm_input:
                inst_h = dict(inst, hermitian=True)
                sh = hermitian.make_session(inst_h, idx + 1, p, spectrum=0)
                sess["hasH"] = 1
                sess["hout"] = sh["out"]
            return ("ok", idx, sess, desc, herm_input)
        except Regenerate:
            continue
        except NonFinite as e:
            return ("nonfinite", idx, str(e), desc, herm_input)
        except hermitian.NotRepresentable as e:
            return ("notrepr", idx, str(e), desc, herm_input)
        except Exception as e:  # noqa: BLE001
            return ("crash", idx, f"{type(e).__name__}: {e}\n{traceback.format_exc(limit=5)}", desc, herm_input)
    return ("skip", idx, "could not generate", None, herm_input)


def validate(sessions, p, workers=16, timeout=900):
    res = common.run_tlc("Trace_Similarity", TRACE_CFG.format(p=p), trace=sessions, workers=workers, timeout=timeout)
    done = {t[1]: t[2] for t in res.lines("DONE")}
    cls = {t[1]: t[2] for t in res.lines("CLASS")}
    fails = {}
    for t in res.lines("FAIL"):
        fails.setdefault(t[1], []).append((t[2], t[3]))
    ill = [t[1] for t in res.lines("ILLPOSED")]
    missing = {s["sid"] for s in sessions} - set(done) - set(ill)
    if missing or res.rc != 0:
        raise MachineryError(f"Trace_Similarity: no verdict for {sorted(missing)[:5]} rc={res.rc}\n" + res.out[-2500:])
    return res, done, fails, ill, cls


KNOWN_CLAUSES_D1 = {"C05.kept_equals_Htilde", "C05.eliminated_zero", "C05.gauge", "C05.U_equals_reference",
                    "C05.Uinv_equals_reference", "C05.Ht_equals_reference", "C05.hermitian_limit",
                    "C05.Htilde_eliminated_part_zero"}


def run(pid, tier, seed, replay=None):
    t0 = time.time()
    quick = tier == "quick"
    p = common.P1
    kf = common.load_known_findings()
    d1 = next((f for f in kf.get("findings", []) if f.get("property") == "C05" and
               f.get("matcher") == "kept_nondegenerate"), None)
    stats = dict(states=0, transitions=0, traces=0, crashes=0, skipped=0)
    mode_a = None
    if replay is None:
        r = common.run_tlc("MC_Similarity", MC_CFG if quick else MC_CFG.replace("MaxK = 1", "MaxK = 2"), timeout=3000)
        if "No error has been found" not in r.out:
            raise MachineryError("MC_Similarity failed:\n" + r.out[-2500:])
        stats["states"] += r.distinct
        stats["transitions"] += r.generated
        mode_a = dict(spec="MC_Similarity", distinct_states=r.distinct, exhaustive=True, invariants=["InvDefiningSim"])
    n = 60 if quick else 800
    if replay is not None:
        inst = hermitian.from_description(replay["instance"])
        sess = hermitian.make_session(inst, 1, p, spectrum=0)
        sess["hasH"], sess["hout"] = 0, []
        items = [("ok", 0, sess, replay["instance"], False)]
    else:
        with mp.get_context("fork").Pool(16) as pool:
            items = pool.map(_one, [(seed, i, p, quick) for i in range(n)], chunksize=1)
    sessions, descs, violations, known = [], {}, [], []
    crash_examples = []
    for it in items:
        if it[0] == "ok":
            sessions.append(it[2])
            descs[it[2]["sid"]] = (it[3], it[4])
        elif it[0] == "crash":
            stats["crashes"] += 1
            if len(crash_examples) < 3:
                crash_examples.append(dict(instance=it[3], error=it[2][:300]))
            # an exception while evaluating an ACCEPTED well-posed input: the identities cannot hold
            violations.append(dict(kind="crash", detail=it[2][:600], instance=it[3]))
        elif it[0] in ("nonfinite", "notrepr"):
            violations.append(dict(kind=it[0], detail=it[2], instance=it[3]))
        else:
            stats["skipped"] += 1
    classes = {"kept_degenerate": 0, "kept_nondegenerate": 0}
    for b in range(0, len(sessions), 64):
        chunk = sessions[b:b + 64]
        res, done, fails, ill, cls = validate(chunk, p)
        stats["states"] += res.distinct
        stats["transitions"] += res.generated
        stats["traces"] += len(done)
        if ill:
            raise MachineryError(f"generator produced ill-posed sessions {ill}")
        for s in chunk:
            c = cls.get(s["sid"], "?")
            classes[c] = classes.get(c, 0) + 1
            f = fails.get(s["sid"], [])
            if not f:
                continue
            names = {x[0] for x in f}
            if d1 and c == "kept_nondegenerate" and names <= KNOWN_CLAUSES_D1:
                known.append(d1["what"])
                continue
            violations.append(dict(kind="clause", clauses=sorted(set(f)), instance=descs[s["sid"]][0],
                                   hermitian_input=descs[s["sid"]][1], cls=c))
    implicit_stage = None
    if replay is None:
        # non-Hermitian IMPLICIT mode ((R, L) pairs for the explicit subspaces only)
        from . import core_implicit

        v_, implicit_stage = core_implicit.related_stage(seed, 70_000, p, "C05", [dict(solver="direct", nonhermitian=True)],
                                                         8 if quick else 80)
        violations.extend(v_)
        stats["states"] += implicit_stage["states"]
        stats["transitions"] += implicit_stage["transitions"]
    control = None
    if replay is None and sessions:
        rng = common.rng_for(seed, pid, "control")
        base = copy.deepcopy(next(s for s in sessions if len(s["out"]) > 1))
        base["sid"] = 1
        pos = rng.randrange(1, len(base["out"]))
        base["out"][pos]["Ud"][0][0][0] = (base["out"][pos]["Ud"][0][0][0] + 1) % p
        _, _, cf, _, _ = validate([base], p, workers=2)
        if not cf.get(1) or not any(c.startswith("C05.inverse") for c, _ in cf[1]):
            raise MachineryError("negative control not rejected by the inverse clauses")
        control = dict(corrupted=f"U_inv[{pos}][0][0]+1", rejected_by=sorted({c for c, _ in cf[1]}))
    lines = [f"KNOWN-FINDING: property={pid} {k}" for k in sorted(set(known))]
    for i, v in enumerate(violations[:10]):
        path = common.write_replay(pid, f"{tier}_{seed}_{i}", dict(property=pid, **v))
        lines.append(f"VIOLATION property={pid} replay={path}")
    coverage = dict(
        states=max(stats["states"], 1), transitions=max(stats["transitions"], 1),
        traces_validated_against_impl=stats["traces"],
        samples=[dict(instance=descs[s["sid"]][0]) for s in sessions[:2]] or [dict(note="none")],
        evaluations=stats["traces"],
        distinct_nontrivial=len({str(v[0]) for v in descs.values()}),
        rule="instance = full description (block structure, complex energies, masks incl. asymmetric, terms, value type, "
             "basis designation); each run with hermitian=False and validated by TLC against Trace_Similarity",
        classes=classes, sessions_in_known_finding_class_failing=len(known), mode_a=mode_a,
        crashes_on_wellposed_input=stats["crashes"], crash_examples=crash_examples, negative_control=control,
        implicit_mode_stage=implicit_stage, exhaustive=False)
    common.write_evidence(pid, tier, seed, coverage, time.time() - t0, len(violations),
                          ["reduction mod p is a ring homomorphism on the values the algorithm can produce",
                           "float runs use dyadic instances; values with >40-bit denominators are snapped within 1e-9",
                           "in the class 'some kept pair has different unperturbed energies' only the inverse clauses are "
                           "enforced (known finding D1)"])
    return lines, len(violations)
