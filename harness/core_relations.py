"""Checks C13 (multi-parameter bookkeeping) and C15 (covariance): Relations.tla.

Each session is a pair (or triple) of runs of the real block_diagonalize whose
INPUTS are related as the property states; TLC computes the relation between
the OUTPUTS (H_tilde, U, U-dagger at every multi-order) and compares.
Input formats vary (order-tuple dict, list, symbolic monomial keys, sympy
matrix with symbols, BlockSeries) so that the key normalisation is exercised;
the parameter order of every run is read from how the library sorted them.
"""

from __future__ import annotations

import copy
import itertools
import multiprocessing as mp
import time
import traceback
from fractions import Fraction

import numpy as np

from . import common, hermitian
from .common import MachineryError, NonFinite, Regenerate, order_seq, red_frac
from .hermitian import cmul, epair, ident, madj, mmul

CFG = """CONSTANT P = {p}
INIT RInit
NEXT RNext
CHECK_DEADLOCK FALSE
"""


def run_side(inst, p):
    s = hermitian.make_session(inst, 0, p, spectrum=0)
    return dict(d=inst["d"], ords=s["ords"], out=s["out"])


def cscale(c, m):
    return [[cmul(c, x) for x in row] for row in m]


def madd(a, b):
    return [[(x[0] + y[0], x[1] + y[1]) for x, y in zip(ra, rb)] for ra, rb in zip(a, b)]


def res_c(c, p):
    return [red_frac(c[0], p), red_frac(c[1], p)]


def res_m(m, p):
    return [[res_c(x, p) for x in row] for row in m]


def perm_matrix(order_b, order_a):
    """T[i][a] = 1 iff block-ordered state i of B is block-ordered state a of A."""
    d = len(order_a)
    pos_a = {s: a for a, s in enumerate(order_a)}
    T = [[(Fraction(0), Fraction(0)) for _ in range(d)] for _ in range(d)]
    for i, s in enumerate(order_b):
        T[i][pos_a[s]] = (Fraction(1), Fraction(0))
    return T


FORMATS = ["dict", "list", "symkeys", "sympy_matrix", "blockseries"]


def base_instance(rng, *, vtype=None, k=None, N=None, hermitian_mode=True, fdkinds=None, d=None, corner=None):
    vtype = vtype or rng.choice(["sympy", "sympy", "numpy", "numpy_complex", "sparse"])
    for _ in range(60):
        try:
            if corner == "selective_last":
                # a selective (dict) mask on ONE block of several, keeping an element between non-degenerate levels
                sizes = rng.choice([[1, 3], [2, 3], [1, 1, 3], [3, 3]])
                inst = hermitian.gen_instance(rng, vtype=vtype, k=k, N=N, d=sum(sizes), sizes=sizes,
                                              hermitian=hermitian_mode, corner=corner, shuffle=False)
                inst["format"] = rng.choice(FORMATS)
                inst["symnames"] = ["q", "a", "m", "z"]
                return inst
            if corner == "degenerate_fd":
                sizes = rng.choice([[3, 1], [1, 3], [3, 2], [4, 1], [2, 3]])
                inst = hermitian.gen_instance(rng, vtype=vtype, k=k, N=N, d=sum(sizes), sizes=sizes,
                                              hermitian=hermitian_mode, corner=corner, shuffle=False)
                inst["format"] = rng.choice(FORMATS)
                return inst
            inst = hermitian.gen_instance(rng, vtype=vtype, k=k, N=N, d=d or rng.choice([2, 3, 3, 4]),
                                          fdkind=rng.choice(fdkinds) if fdkinds else None,
                                          hermitian=hermitian_mode)
            inst["format"] = rng.choice(FORMATS)
            # symbols of the symbolic containers in NON-alphabetical order ("q" < "a" is false): an explicit
            # `symbols=` list fixes the order of the order indices, monomial keys are sorted by the library
            inst["symnames"] = ["q", "a", "m", "z"]
            # numpy / sparse presentations: integer-valued terms in an INTEGER dtype in half of the instances
            inst["int_dtype"] = rng.random() < 0.5
            if (inst["vtype"] == "sympy" and inst["d"] <= 3 and inst["N"] <= 3 and rng.random() < 0.3
                    and all(hermitian.epair(e)[1] == 0 for e in inst["E"])):
                inst["symbolic_consts"] = True      # symbolic unperturbed levels and coupling constant
            return inst
        except Regenerate:
            continue
    raise Regenerate("no base instance")


# ---- C13 ----------------------------------------------------------------------
def pair_scaled(rng):
    A = base_instance(rng, k=rng.choice([1, 2, 2, 3]))
    k = A["k"]
    dy = A["vtype"] != "sympy"
    cs = [Fraction(rng.choice([2, -1, -2, 4] if dy else [2, -1, 3, -2]), rng.choice([1, 2] if dy else [1, 2, 3]))
          for _ in range(k)]
    B = copy.deepcopy(A)
    for n, m in A["terms"].items():
        c = Fraction(1)
        for ck, nk in zip(cs, n):
            c *= ck**nk
        B["terms"][n] = cscale((c, Fraction(0)), m)
    B["format"] = rng.choice(FORMATS)
    return A, B, None, lambda p: dict(kind="scaled", c=[res_c((c, Fraction(0)), p) for c in cs])


def pair_merged(rng):
    A = base_instance(rng, k=rng.choice([2, 3]), N=3)
    k = A["k"]
    kb = rng.randint(1, k - 1)
    while True:
        g = [rng.randrange(kb) for _ in range(k)]
        if set(g) == set(range(kb)):
            break
    B = copy.deepcopy(A)
    B["k"] = kb
    B["terms"] = {}
    for n, m in A["terms"].items():
        mm = tuple(sum(n[i] for i in range(k) if g[i] == j) for j in range(kb))
        B["terms"][mm] = madd(B["terms"][mm], m) if mm in B["terms"] else m
    B["terms"] = {n: m for n, m in B["terms"].items() if not hermitian.is_zero_mat(m)}
    B["symnames"] = None
    B["format"] = rng.choice(FORMATS)
    if not B["terms"]:
        raise Regenerate("merged terms cancel")
    return A, B, None, lambda p: dict(kind="merged", g=[x + 1 for x in g])


def pair_merged_sympy_matrix(rng):
    """Merging the two parameters of a SYMPY MATRIX with a mixed monomial x*y (Taylor bookkeeping)."""
    A = base_instance(rng, vtype="sympy", k=2, N=3)
    d = A["d"]
    for n in [(1, 1)] + ([(2, 1)] if rng.random() < 0.5 else []):
        A["terms"][n] = hermitian.rand_herm(rng, d, complex_=True, dens=(1, 2), amp=2, fill=1.0)
    A["format"] = "sympy_matrix"
    B = copy.deepcopy(A)
    B["k"] = 1
    B["terms"] = {}
    for n, m in A["terms"].items():
        mm = (sum(n),)
        B["terms"][mm] = madd(B["terms"][mm], m) if mm in B["terms"] else m
    B["terms"] = {n: m for n, m in B["terms"].items() if not hermitian.is_zero_mat(m)}
    B["symnames"] = None
    B["format"] = rng.choice(["dict", "sympy_matrix", "symkeys"])
    return A, B, None, lambda p: dict(kind="merged", g=[1, 1])


def pair_permuted(rng):
    A = base_instance(rng, k=rng.choice([2, 3]), N=3)
    k = A["k"]
    pi = list(range(k))
    while pi == list(range(k)):
        rng.shuffle(pi)
    # parameter i of A becomes parameter pi[i] of B
    B = copy.deepcopy(A)
    B["terms"] = {}
    for n, m in A["terms"].items():
        mm = [0] * k
        for i in range(k):
            mm[pi[i]] = n[i]
        B["terms"][tuple(mm)] = m
    B["format"] = rng.choice(FORMATS)
    if rng.random() < 0.5:
        # let the LIBRARY do the permutation: same terms as A under symbolic keys whose
        # names sort in the permuted order
        B = copy.deepcopy(A)
        B["format"] = "symkeys"
        names = [None] * k
        for i in range(k):
            names[i] = "bcdefg"[pi[i]] + "x"
        B["symnames"] = names
        return A, B, None, lambda p: dict(kind="same")
    return A, B, None, lambda p: dict(kind="permuted", pi=[x + 1 for x in pi])


def pair_subst(rng):
    A = base_instance(rng, k=rng.choice([1, 2]), N=2)
    q = 2
    B = copy.deepcopy(A)
    B["N"] = A["N"] * q
    B["terms"] = {tuple(q * x for x in n): m for n, m in A["terms"].items()}
    B["format"] = rng.choice(["dict", "symkeys", "sympy_matrix", "blockseries"])
    return A, B, None, lambda p: dict(kind="subst", q=q)


def pair_vanishing(rng):
    A = base_instance(rng, k=rng.choice([1, 2]), N=3)
    B = copy.deepcopy(A)
    B["k"] = A["k"] + 1
    B["terms"] = {(*n, 0): m for n, m in A["terms"].items()}
    B["symnames"] = None
    B["format"] = rng.choice(["dict", "blockseries", "list"])
    if B["format"] == "list":
        # a list has one first-order term per parameter: the extra one is the zero matrix
        pass
    return A, B, None, lambda p: dict(kind="vanishing")


# ---- C15 ----------------------------------------------------------------------
def pair_relabel(rng):
    A = base_instance(rng, d=rng.choice([3, 4, 5]), corner=rng.choice(["degenerate_fd", "selective_last", "selective_last", "selective_last", None]))
    nb = len(A["sizes"])
    if nb < 2:
        raise Regenerate("one block")
    sigma = list(range(nb))
    while sigma == list(range(nb)):
        rng.shuffle(sigma)
    if A["fdkind"] == "dict" and len(A["fd_blocks"]) == 1 and A["fd_blocks"][0] != 0:
        # a single masked block that is not block 0: relabel it to block 0 (label-dependent handling of
        # the mask dictionary shows as a difference between the two labellings)
        b0 = A["fd_blocks"][0]
        rest = [x for x in range(nb) if x != b0]
        tgt = list(range(1, nb))
        rng.shuffle(tgt)
        sigma = [0] * nb
        for x, t_ in zip(rest, tgt):
            sigma[x] = t_
        sigma[b0] = 0
    B = copy.deepcopy(A)
    B["sub_idx"] = [sigma[b] for b in A["sub_idx"]]
    B["sizes"] = [0] * nb
    for b in range(nb):
        B["sizes"][sigma[b]] = A["sizes"][b]
    B["fd_blocks"] = sorted(sigma[b] for b in A["fd_blocks"])
    B["masks"] = {sigma[b]: m for b, m in A["masks"].items()}
    T = perm_matrix(hermitian.block_order(B), hermitian.block_order(A))
    return A, B, None, lambda p: dict(kind="basis", T=res_m(T, p), Ti=res_m(madj(T), p))


def pair_basisperm(rng):
    A = base_instance(rng, d=rng.choice([3, 4, 5]), corner="degenerate_fd" if rng.random() < 0.6 else None,
                      vtype=rng.choice(["numpy", "numpy_complex", "sparse", "sympy"]))
    d = A["d"]
    pi = list(range(d))
    rng.shuffle(pi)  # new state j is old state pi[j]
    B = copy.deepcopy(A)
    B["sub_idx"] = [A["sub_idx"][pi[j]] for j in range(d)]
    B["E"] = [A["E"][pi[j]] for j in range(d)]
    B["terms"] = {n: [[m[pi[a]][pi[b]] for b in range(d)] for a in range(d)] for n, m in A["terms"].items()}
    # masks are given in block-local coordinates (increasing user index inside a block)
    for b, msk in A["masks"].items():
        old_states = [i for i in range(d) if A["sub_idx"][i] == b]
        new_states = [j for j in range(d) if B["sub_idx"][j] == b]
        loc_old = {s: q for q, s in enumerate(old_states)}
        idx = [loc_old[pi[j]] for j in new_states]
        B["masks"][b] = msk[np.ix_(idx, idx)].copy()
    order_b_as_old = [pi[j] for j in hermitian.block_order(B)]
    T = perm_matrix(order_b_as_old, hermitian.block_order(A))
    return A, B, None, lambda p: dict(kind="basis", T=res_m(T, p), Ti=res_m(madj(T), p))


def pair_degrot(rng):
    vt = rng.choice(["sympy", "numpy_complex"])
    for _ in range(60):
        A = base_instance(rng, vtype=vt, d=rng.choice([3, 4, 5]), fdkinds=["none", "tuple"])
        d = A["d"]
        pairs = [(i, j) for i in range(d) for j in range(i + 1, d)
                 if A["sub_idx"][i] == A["sub_idx"][j] and A["E"][i] == A["E"][j]]
        if pairs:
            break
    else:
        raise Regenerate("no degenerate pair")
    i, j = rng.choice(pairs)
    R = ident(d)
    if vt == "sympy":
        a, b = Fraction(3, 5), Fraction(4, 5)
        R[i][i], R[i][j], R[j][i], R[j][j] = (a, 0 * a), (b, 0 * a), (-b, 0 * a), (a, 0 * a)
    else:
        h = Fraction(1, 2)
        R[i][i], R[i][j], R[j][i], R[j][j] = (h, h), (h, -h), (h, -h), (h, h)
    Rd = madj(R)
    B = copy.deepcopy(A)
    B["terms"] = {n: mmul(R, mmul(m, Rd)) for n, m in A["terms"].items()}
    B["complex"] = True
    order = hermitian.block_order(A)
    T = hermitian.permute(R, order)
    return A, B, None, lambda p: dict(kind="basis", T=res_m(T, p), Ti=res_m(madj(T), p))


def pair_conj(rng):
    A = base_instance(rng, vtype=rng.choice(["sympy", "numpy_complex"]))
    B = copy.deepcopy(A)
    B["terms"] = {n: [[(x, -y) for (x, y) in row] for row in m] for n, m in A["terms"].items()}
    B["E"] = [(epair(e)[0], -epair(e)[1]) for e in A["E"]]
    return A, B, None, lambda p: dict(kind="conj")


def pair_shift(rng):
    A = base_instance(rng)
    # small shifts and shifts that dwarf the level spacings (relative tolerances must not see them)
    c = Fraction(rng.choice([1, -2, 4, 16, -8, 64, 2 ** 20, -(2 ** 20), 2 ** 24]))
    B = copy.deepcopy(A)
    B["E"] = [(epair(e)[0] + c, epair(e)[1]) for e in A["E"]]
    return A, B, None, lambda p: dict(kind="shift", c=res_c((c, Fraction(0)), p))


def pair_scaleall(rng):
    A = base_instance(rng)
    s = Fraction(rng.choice([2, 4, 8]), rng.choice([1, 16])) if A["vtype"] != "sympy" else Fraction(rng.choice([2, 3, 5]), rng.choice([1, 7]))
    B = copy.deepcopy(A)
    B["E"] = [(epair(e)[0] * s, epair(e)[1] * s) for e in A["E"]]
    B["terms"] = {n: cscale((s, Fraction(0)), m) for n, m in A["terms"].items()}
    return A, B, None, lambda p: dict(kind="scaleall", s=res_c((s, Fraction(0)), p))


def pair_dsum(rng):
    k = rng.choice([1, 2])
    N = 3
    A = base_instance(rng, vtype="sympy", k=k, N=N, d=rng.choice([2, 3]))
    C = base_instance(rng, vtype="sympy", k=k, N=N, d=rng.choice([2, 3]))
    off = Fraction(20)
    nbA = len(A["sizes"])
    B = copy.deepcopy(A)
    dA, dC = A["d"], C["d"]
    B["d"] = dA + dC
    B["sizes"] = A["sizes"] + C["sizes"]
    B["sub_idx"] = A["sub_idx"] + [b + nbA for b in C["sub_idx"]]
    C["E"] = [(epair(e)[0] + off, epair(e)[1]) for e in C["E"]]
    B["E"] = [epair(e) for e in A["E"]] + [epair(e) for e in C["E"]]
    z = (Fraction(0), Fraction(0))
    B["terms"] = {}
    for n in set(A["terms"]) | set(C["terms"]):
        a = A["terms"].get(n, [[z] * dA for _ in range(dA)])
        c = C["terms"].get(n, [[z] * dC for _ in range(dC)])
        B["terms"][n] = [list(r) + [z] * dC for r in a] + [[z] * dA + list(r) for r in c]
    # the fully_diagonalize forms must be compatible: use the tuple/none forms only
    for X in (A, C):
        if X["fdkind"] in ("dict", "array"):
            X["fdkind"], X["fd_blocks"], X["masks"] = "none", [], {}
            if len(X["sizes"]) == 1:
                X["fdkind"], X["fd_blocks"] = "tuple", [0]
    fa = A["fd_blocks"] if A["fdkind"] == "tuple" else ([0] if len(A["sizes"]) == 1 else [])
    fc = C["fd_blocks"] if C["fdkind"] == "tuple" else ([0] if len(C["sizes"]) == 1 else [])
    B["fdkind"] = "tuple" if (fa or fc) else "none"
    B["fd_blocks"] = sorted(fa + [b + nbA for b in fc])
    B["masks"] = {}
    for X in (A, B, C):
        X["format"] = rng.choice(["dict", "symkeys", "blockseries"])
        X["symnames"] = None
    if not (hermitian.well_posed(A) and hermitian.well_posed(B) and hermitian.well_posed(C)):
        raise Regenerate("dsum ill posed")
    return A, B, C, lambda p: dict(kind="dsum")


# ---- C14 ----------------------------------------------------------------------
VT_EQUIV = {"sympy": ["numpy", "numpy_complex", "sparse"]}


def pair_format(rng):
    """Same abstract Hamiltonian, two different containers."""
    A = base_instance(rng, k=rng.choice([1, 2, 2, 3]))
    A["format"] = "dict"
    if rng.random() < 0.25:
        hermitian.shrink_parameter(A)
    B = copy.deepcopy(A)
    B["format"] = rng.choice(["list", "symkeys", "sympy_matrix", "blockseries", "symkeys",
                              "blocklist", "blockdict", "blockseries2"])
    if B["format"] in ("symkeys", "sympy_matrix"):
        # symbol names in NON-alphabetical order: for a sympy matrix the order of `symbols=` is the order of
        # the order indices, for monomial keys the library sorts by name (read back from dimension_names)
        names = ["q", "a", "m", "z"][: A["k"]]
        rng.shuffle(names)
        B["symnames"] = names
    return A, B, None, lambda p: dict(kind="same")


def pair_sympy_matrix_mixed(rng):
    """A sympy matrix with MIXED monomials (x*y, x**2*y, ...) vs the same terms as an order-tuple dict."""
    A = base_instance(rng, vtype="sympy", k=rng.choice([2, 2, 3]), N=3)
    k, d = A["k"], A["d"]
    mixed = [n for n in order_seq(k, 3) if sum(1 for x in n if x) >= 2]
    for n in rng.sample(mixed, min(len(mixed), 2)):
        A["terms"][n] = hermitian.rand_herm(rng, d, complex_=True, dens=(1, 2), amp=2, fill=1.0)
    A["format"] = "dict"
    B = copy.deepcopy(A)
    B["format"] = "sympy_matrix"
    return A, B, None, lambda p: dict(kind="same")


def pair_vtype(rng):
    """Same abstract Hamiltonian, dense / sparse / symbolic values."""
    A = base_instance(rng, vtype="numpy_complex")
    if rng.random() < 0.4:
        # stratum "tiny term": entries of ~1e-9 in the last parameter's first-order term (a zero test with
        # the wrong tolerance drops the term for some value types / containers only)
        hermitian.shrink_parameter(A)
    B = copy.deepcopy(A)
    B["vtype"] = rng.choice(["sympy", "sparse", "sympy"])
    B["format"] = rng.choice(FORMATS)
    return A, B, None, lambda p: dict(kind="same")


def pair_designation(rng):
    """subspace_indices vs the corresponding eigenvector matrices."""
    A = base_instance(rng, vtype=rng.choice(["sympy", "numpy", "numpy_complex"]))
    B = copy.deepcopy(A)
    d = A["d"]
    I = ident(d)
    B["basis"] = dict(kind="unitary", M=I, Mi=I)
    return A, B, None, lambda p: dict(kind="same")


def pair_eigenbasis(rng):
    """Any unitary / biorthogonal eigenbasis == rotating the Hamiltonian first."""
    herm = rng.random() < 0.6
    vt = rng.choice(["sympy", "numpy_complex"] if herm else ["sympy", "numpy", "numpy_complex"])
    A = base_instance(rng, vtype=vt, hermitian_mode=herm, d=rng.choice([4, 5]) if herm else None,
                      fdkinds=["none", "tuple", "dict"])
    if not herm:
        A["hermitian"] = False
    B = copy.deepcopy(A)
    cx = A.get("complex", False) or vt == "numpy_complex"
    if herm:
        Q, Qd = hermitian.dyadic_unitary(rng, A["d"], cx)
        B["basis"] = dict(kind="unitary", M=Q, Mi=Qd)
    else:
        M, Mi = hermitian.unimodular_pair(rng, A["d"], cx)
        B["basis"] = dict(kind="pairs", M=M, Mi=Mi)
    B["complex"] = cx
    return A, B, None, lambda p: dict(kind="same")


def pair_analytic(rng):
    """sympy matrix with analytic dependence (Taylor-expanded) == its Taylor coefficients as a dict."""
    import sympy

    k = rng.choice([1, 2])
    A = base_instance(rng, vtype="sympy", k=k, N=3 if k == 2 else 4)
    d = A["d"]
    funcs = []  # per parameter: (name, coefficients c_1.., sympy function of the symbol)
    table = {
        "exp": (lambda n: Fraction(1, __import__("math").factorial(n)), lambda x: sympy.exp(x) - 1),
        "geom": (lambda n: Fraction(1), lambda x: 1 / (1 - x) - 1),
        "sin": (lambda n: Fraction(0) if n % 2 == 0 else Fraction((-1) ** ((n - 1) // 2), __import__("math").factorial(n)),
                lambda x: sympy.sin(x)),
        "log": (lambda n: Fraction((-1) ** (n + 1), n), lambda x: sympy.log(1 + x)),
    }
    V = [hermitian.rand_herm(rng, d, complex_=True, dens=(1, 2), amp=2, fill=1.0) for _ in range(k)]
    A["terms"] = {}
    expr = None
    names = symbol_names_for(k)
    syms = [sympy.Symbol(nm, real=True) for nm in names]
    total = hermitian.to_sympy(hermitian.h0_user(A))
    for j in range(k):
        fname = rng.choice(sorted(table))
        coef, fn = table[fname]
        for n in range(1, A["N"] + 1):
            c = coef(n)
            if c != 0:
                A["terms"][tuple(n if i == j else 0 for i in range(k))] = cscale((c, Fraction(0)), V[j])
        total = total + fn(syms[j]) * hermitian.to_sympy(V[j])
    A["format"] = "dict"
    A["symnames"] = names
    B = copy.deepcopy(A)
    B["format"] = "analytic"
    B["_analytic"] = (total, syms)
    return A, B, None, lambda p: dict(kind="same")


def symbol_names_for(k):
    return [f"a{i}" for i in range(k)]


def pair_projection(rng):
    """operator_to_BlockSeries returns exactly L_i^dagger A R_j."""
    herm = rng.random() < 0.5
    vt = rng.choice(["sympy", "numpy_complex"])
    A = base_instance(rng, vtype=vt, hermitian_mode=herm)
    A["projection"] = True
    cx = True
    if herm:
        Q, Qd = hermitian.dyadic_unitary(rng, A["d"], cx)
        A["basis"] = dict(kind="unitary", M=Q, Mi=Qd)
    else:
        M, Mi = hermitian.unimodular_pair(rng, A["d"], cx)
        A["basis"] = dict(kind="pairs", M=M, Mi=Mi)
    return A, None, None, None


KINDS = {
    "C13": [pair_scaled, pair_merged, pair_merged_sympy_matrix, pair_permuted, pair_subst, pair_vanishing],
    "C14": [pair_format, pair_sympy_matrix_mixed, pair_vtype, pair_designation, pair_eigenbasis, pair_analytic, pair_projection],
    "C15": [pair_relabel, pair_basisperm, pair_degrot, pair_conj, pair_shift, pair_scaleall, pair_dsum],
}


def projection_session(A, sid, p, pid):
    """Call operator_to_BlockSeries directly and log its blocks."""
    import warnings

    import pymablock
    from pymablock.block_diagonalization import operator_to_BlockSeries

    H, extra, pmap = hermitian.present(dict(A, format="dict"))
    des = hermitian.designation(A)
    with warnings.catch_warnings():
        warnings.simplefilter("ignore")
        op = operator_to_BlockSeries(H, hermitian=A.get("hermitian", True), **des)
    sizes = A["sizes"]
    k, N = A["k"], A["N"]
    ords = order_seq(k, N)
    outB, outA = [], []
    M, Mi = A["basis"]["M"], A["basis"]["Mi"]
    allterms = {(0,) * k: hermitian.h0_user(A), **A["terms"]}
    hermitian.EXACT_TINY = A.get("tiny_parameter") is not None
    hermitian.JITTERED = False
    for n in ords:
        blk, _ = hermitian.assemble(op, n, sizes, p)
        outB.append({"Ht": blk, "U": blk, "Ud": blk})
        raw = allterms.get(n)
        rawm = res_m(mmul(M, mmul(raw, Mi)), p) if raw is not None else common.zeros_res(A["d"], A["d"])
        outA.append({"Ht": rawm, "U": rawm, "Ud": rawm})
    order = hermitian.block_order(A)
    L = madj(Mi)
    Rb = [[M[r][c] for c in order] for r in range(A["d"])]
    Lb = [[L[r][c] for c in order] for r in range(A["d"])]
    return dict(sid=sid, prop=pid, rel=dict(kind="projection", R=res_m(Rb, p), L=res_m(Lb, p)),
                A=dict(d=A["d"], ords=[list(n) for n in ords], out=outA),
                B=dict(d=A["d"], ords=[list(n) for n in ords], out=outB))


def _job(args):
    pid, seed, idx, p = args
    maker = KINDS[pid][idx % len(KINDS[pid])]
    rng = common.rng_for(seed, pid, maker.__name__, idx)
    for attempt in range(25):
        try:
            A, B, C, relf = maker(rng)
            if B is None:
                return ("ok", idx, projection_session(A, idx + 1, p, pid), dict(kind=maker.__name__, A=hermitian.describe(A), B=None, C=None))
            if not hermitian.well_posed(B) or not hermitian.well_posed(A):
                continue
            if any(all(hermitian.epair(e) == (0, 0) for e in X["E"]) for X in (A, B)):
                continue     # H_0 = 0 is refused by the library up front (ValueError): not an input of these relations
            ses = dict(sid=idx + 1, prop=pid, rel=relf(p), A=run_side(A, p), B=run_side(B, p))
            if C is not None:
                ses["C"] = run_side(C, p)
            desc = dict(kind=maker.__name__, A=hermitian.describe(A), B=hermitian.describe(B),
                        C=hermitian.describe(C) if C is not None else None)
            return ("ok", idx, ses, desc)
        except Regenerate:
            continue
        except (NonFinite, hermitian.NotRepresentable) as e:
            return ("nonfinite", idx, f"{type(e).__name__}: {e}", dict(kind=maker.__name__))
        except Exception as e:  # noqa: BLE001
            desc = dict(kind=maker.__name__)
            try:
                desc.update(A=hermitian.describe(A), B=hermitian.describe(B) if B is not None else None)
            except Exception:  # noqa: BLE001
                pass
            return ("crash", idx, f"{type(e).__name__}: {e}\n{traceback.format_exc(limit=5)}", desc)
    return ("skip", idx, "could not generate", dict(kind=maker.__name__))


def validate(sessions, p, workers=16, timeout=900):
    res = common.run_tlc("Relations", CFG.format(p=p), trace=sessions, workers=workers, timeout=timeout)
    done = {t[1]: t[2] for t in res.lines("DONE")}
    fails = {}
    for t in res.lines("FAIL"):
        fails.setdefault(t[1], []).append((t[2], t[3]))
    missing = {s["sid"] for s in sessions} - set(done)
    if missing or res.rc != 0:
        raise MachineryError(f"Relations: no verdict for {sorted(missing)[:5]} rc={res.rc}\n" + res.out[-2500:])
    return res, done, fails


def run(pid, tier, seed, replay=None):
    t0 = time.time()
    p = common.P1
    quick = tier == "quick"
    n = (70 if quick else 900)
    with mp.get_context("fork").Pool(16) as pool:
        items = pool.map(_job, [(pid, seed, i, p) for i in range(n)], chunksize=1)
    sessions, descs, violations, crashes, skipped = [], {}, [], [], 0
    per_kind = {}
    for it in items:
        kind = it[3]["kind"]
        if it[0] == "ok":
            sessions.append(it[2])
            descs[it[2]["sid"]] = it[3]
            per_kind[kind] = per_kind.get(kind, 0) + 1
        elif it[0] == "crash":
            # one of the related runs raised (or returned something that is not a finite Gaussian rational)
            # on a well-posed input while the relation demands a value: a violation, not a statistic
            crashes.append(dict(kind=kind, error=it[2][:400]))
            violations.append(dict(kind="exception_in_related_run", relation=kind, error=it[2][:600],
                                   pair={k_: v_ for k_, v_ in it[3].items() if k_ != "kind"}))
        elif it[0] == "nonfinite":
            violations.append(dict(kind="nonfinite", detail=it[2], relation=kind))
        else:
            skipped += 1
    stats = dict(states=0, transitions=0)
    for b in range(0, len(sessions), 100):
        chunk = sessions[b:b + 100]
        res, done, fails = validate(chunk, p)
        stats["states"] += res.distinct
        stats["transitions"] += res.generated
        for s in chunk:
            if fails.get(s["sid"]):
                violations.append(dict(kind="relation", clauses=sorted(set(fails[s["sid"]]))[:12],
                                       pair=descs[s["sid"]]))
    implicit_stage = None
    if pid == "C15":
        # relabelling in IMPLICIT mode: the explicit vectors of a subspace listed in any order
        from . import core_implicit

        v_, implicit_stage = core_implicit.related_stage(
            seed, 80_000, p, "C15", [dict(solver="direct", interleaved=True), dict(solver="direct", sparse_terms=True),
                                     dict(solver="direct", nonhermitian=True, interleaved=True),
                                     dict(solver="direct")], 12 if quick else 96)
        violations.extend(v_)
        stats["states"] += implicit_stage["states"]
        stats["transitions"] += implicit_stage["transitions"]
    control = None
    if sessions:
        bad = copy.deepcopy(sessions[0])
        bad["sid"] = 1
        pos = len(bad["B"]["out"]) - 1
        bad["B"]["out"][pos]["U"][0][0][0] = (bad["B"]["out"][pos]["U"][0][0][0] + 1) % p
        _, _, cf = validate([bad], p, workers=2)
        if not cf.get(1):
            raise MachineryError("negative control accepted")
        control = dict(corrupted="B.U[last][0][0]+1", rejected_by=sorted({c for c, _ in cf[1]}))
    lines = []
    for i, v in enumerate(violations[:10]):
        path = common.write_replay(pid, f"{tier}_{seed}_{i}", dict(property=pid, **v))
        lines.append(f"VIOLATION property={pid} replay={path}")
    coverage = dict(
        states=max(stats["states"], 1), transitions=max(stats["transitions"], 1),
        traces_validated_against_impl=len(sessions),
        samples=[descs[s["sid"]] for s in sessions[:2]] or [dict(note="none")],
        evaluations=len(sessions), distinct_nontrivial=len({str(d) for d in descs.values()}),
        rule="one evaluation = a pair (triple) of real runs related as the property states; distinct by both instance "
             "descriptions", pairs_per_relation=per_kind, crashes=len(crashes), crash_examples=crashes[:3],
        generator_skips=skipped, negative_control=control, implicit_mode_stage=implicit_stage, exhaustive=False)
    common.write_evidence(pid, tier, seed, coverage, time.time() - t0, len(violations),
                          ["outputs compared in GF(p^2); float runs on dyadic instances (exact)",
                           "scales / shifts are powers of two on float instances so that both runs stay exact"])
    return lines, len(violations)
