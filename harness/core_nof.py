"""Check C08: NumberOrderedForm arithmetic faithfully represents the operator algebra (Fock.tla).

The harness generates expression trees over boson / ladder / spin-1/2 / fermion
generators, number operators, scalars and functions of number operators, lets the REAL
NumberOrderedForm class convert and combine them (from_expr, +, -, *, **, adjoint,
as_expr round trip, both associations of triple products), logs every resulting object
as data (power tuples + coefficient tables over the basis states) and TLC (Trace_Fock)
compares its meaning on a truncated Fock space with the denotation of the tree / with
the composition of the operands' meanings.
"""

from __future__ import annotations

import copy
import itertools
import multiprocessing as mp
import time
import traceback
from fractions import Fraction

from . import common
from .common import MachineryError, red_frac

CFG = (common.SPEC / "Trace_Fock.cfg").read_text()

KINDS = ["boson", "ladder", "spin", "fermion"]  # the library sorts operators in this order


def make_modes(rng):
    """1..3 modes of mixed statistics; returns mode records sorted as the library sorts operators."""
    while True:
        n = rng.choice([1, 2, 2, 3])
        chosen = []
        pool = [("boson", "a"), ("boson", "b"), ("ladder", "l"), ("spin", "s"), ("spin", "t"),
                ("fermion", "c"), ("fermion", "d"), ("fermion", "f")]
        for kind, name in rng.sample(pool, n):
            chosen.append((kind, name))
        chosen.sort(key=lambda kn: (KINDS.index(kn[0]), kn[1]))
        modes = []
        dim = 1
        for kind, name in chosen:
            if kind == "boson":
                lo, hi = 0, 7
            elif kind == "ladder":
                lo, hi = -4, 4
            else:
                lo, hi = 0, 1
            dim *= hi - lo + 1
            modes.append(dict(kind=kind, name=name, lo=lo, hi=hi))
        if dim <= 72:
            return modes


def sympy_ops(modes):
    from pymablock.number_ordered_form import LadderOp
    from sympy.physics.quantum import pauli
    from sympy.physics.quantum.boson import BosonOp
    from sympy.physics.quantum.fermion import FermionOp

    mk = dict(boson=BosonOp, ladder=LadderOp, spin=pauli.SigmaMinus, fermion=FermionOp)
    return [mk[m["kind"]](m["name"]) for m in modes]


# ---- expression trees (harness level, dagger anywhere) -------------------------------
def gen_tree(rng, modes, depth, budget):
    """Returns a harness tree; budget bounds the total ladder degree."""
    r = rng.random()
    m = len(modes)
    if depth >= 3 or budget <= 1 or r < 0.3:
        q = rng.random()
        i = rng.randrange(m)
        if q < 0.5:
            return ("gen", i, int(rng.random() < 0.5))
        if q < 0.65:
            return ("num", i)
        if q < 0.8:
            return ("scal", Fraction(rng.choice([-2, -1, 2, 3]), rng.choice([1, 2, 3])),
                    Fraction(rng.choice([0, 0, 1, -1])))
        return ("fn", rng.choice(["poly", "rat"]), i, rng.randrange(1, 4))
    if r < 0.6:
        k = rng.choice([2, 2, 3])
        return ("mul", [gen_tree(rng, modes, depth + 1, max(1, budget // k)) for _ in range(k)])
    if r < 0.8:
        k = rng.choice([2, 3])
        return ("add", [gen_tree(rng, modes, depth + 1, budget) for _ in range(k)])
    if r < 0.9:
        k = rng.choice([2, 2, 3])
        return ("pow", gen_tree(rng, modes, depth + 1, max(1, budget // k)), k)
    return ("dag", gen_tree(rng, modes, depth + 1, budget))


def degree(t):
    if t[0] == "gen":
        return 1
    if t[0] in ("num", "scal", "fn"):
        return 0
    if t[0] == "mul":
        return sum(degree(x) for x in t[1])
    if t[0] == "add":
        return max(degree(x) for x in t[1])
    if t[0] == "pow":
        return degree(t[1]) * t[2]
    return degree(t[1])


def fn_expr(kind, n, c):
    """A function of the number operator N (sympy expression in a symbol or operator n)."""
    if kind == "poly":
        return n * n + c * n + 1
    return 1 / (n + c + 1)   # no pole on occupations >= 0


def to_sympy(t, ops, modes):
    import sympy
    from pymablock.number_ordered_form import NumberOperator
    from sympy.physics.quantum import Dagger

    if t[0] == "gen":
        return Dagger(ops[t[1]]) if t[2] else ops[t[1]]
    if t[0] == "num":
        return NumberOperator(ops[t[1]])
    if t[0] == "scal":
        return sympy.Rational(t[1].numerator, t[1].denominator) + sympy.I * sympy.Rational(t[2].numerator, t[2].denominator)
    if t[0] == "fn":
        kind = t[1] if modes[t[2]]["kind"] in ("boson", "spin", "fermion") else "poly"
        return fn_expr(kind, NumberOperator(ops[t[2]]), t[3])
    if t[0] == "mul":
        out = to_sympy(t[1][0], ops, modes)
        for x in t[1][1:]:
            out = out * to_sympy(x, ops, modes)
        return out
    if t[0] == "add":
        out = to_sympy(t[1][0], ops, modes)
        for x in t[1][1:]:
            out = out + to_sympy(x, ops, modes)
        return out
    if t[0] == "pow":
        return to_sympy(t[1], ops, modes) ** t[2]
    return Dagger(to_sympy(t[1], ops, modes))


def states_of(modes):
    return [tuple(s) for s in itertools.product(*[range(m["lo"], m["hi"] + 1) for m in modes])]


def normalise(t, modes, states, p, dag=False):
    """Tree for TLC: daggers pushed to the leaves (products reversed), tables for functions of N."""
    if t[0] == "gen":
        return ["gen", t[1] + 1, t[2] ^ int(dag)]
    if t[0] == "num":
        return ["num", t[1] + 1]
    if t[0] == "scal":
        im = -t[2] if dag else t[2]
        return ["scal", [red_frac(t[1], p), red_frac(im, p)]]
    if t[0] == "fn":
        kind = t[1] if modes[t[2]]["kind"] in ("boson", "spin", "fermion") else "poly"
        tab = []
        for s in states:
            n = Fraction(s[t[2]])
            v = n * n + t[3] * n + 1 if kind == "poly" else 1 / (n + t[3] + 1)
            tab.append([red_frac(v, p), 0])
        return ["fn", tab]
    if t[0] == "mul":
        parts = [normalise(x, modes, states, p, dag) for x in t[1]]
        return ["mul", parts[::-1] if dag else parts]
    if t[0] == "add":
        return ["add", [normalise(x, modes, states, p, dag) for x in t[1]]]
    if t[0] == "pow":
        return ["pow", normalise(t[1], modes, states, p, dag), t[2]]
    return normalise(t[1], modes, states, p, not dag)


def placeholder_symbols(ops):
    from pymablock.number_ordered_form import NumberOperator
    try:
        from pymablock.number_ordered_form import _number_operator_to_placeholder as ph
        return [ph(NumberOperator(op)) for op in ops]
    except ImportError:
        return None


def nof_record(nof, ops, modes, states, p):
    """A NumberOrderedForm as data: terms with power tuples and coefficient tables."""
    import sympy

    if list(nof.operators) != list(ops):
        raise MachineryError(f"operator order {nof.operators} differs from {ops}")
    syms = placeholder_symbols(ops)
    terms = []
    for pw, co in nof.terms.items():
        co = sympy.sympify(co)
        tab, bad = [], []
        cache = {}
        used = [x for x in syms if x in co.free_symbols]
        pos = [syms.index(x) for x in used]
        for s in states:
            key = tuple(s[i] for i in pos)
            if key not in cache:
                # exact substitution (lambdify would turn rational constants into floats)
                v = co.xreplace({x: sympy.Integer(s[i]) for x, i in zip(used, pos)})
                try:
                    v = sympy.nsimplify(v, rational=True) if v.free_symbols else v
                    if v.has(sympy.zoo, sympy.oo, sympy.nan, -sympy.oo):
                        raise ZeroDivisionError
                    cache[key] = (common.red_sympy(v, p), 0)
                except (ZeroDivisionError, ValueError):
                    cache[key] = ([0, 0], 1)
            tab.append(cache[key][0])
            bad.append(cache[key][1])
        terms.append(dict(pw=[int(x) for x in pw], tab=tab, bad=bad))
    return dict(terms=terms)


def build_session(sid, seed):
    from pymablock.number_ordered_form import NumberOrderedForm as NOF
    from sympy.physics.quantum import Dagger

    rng = common.rng_for(seed, "C08", sid)
    p = common.P1
    modes = make_modes(rng)
    ops = sympy_ops(modes)
    states = states_of(modes)
    strides = []
    for i in range(len(modes)):
        st = 1
        for m in modes[i + 1:]:
            st *= m["hi"] - m["lo"] + 1
        strides.append(st)
    objs, trees, checks, exprs = [], [], [], []

    def add_obj(nof):
        objs.append(nof_record(nof, ops, modes, states, p))
        return len(objs)

    nofs = []
    gtrees = []
    for _ in range(3):
        t = gen_tree(rng, modes, 0, 4)
        if degree(t) > 4:
            continue
        gtrees.append(t)
        e = to_sympy(t, ops, modes)
        x = NOF.from_expr(e, operators=ops)
        k = add_obj(x)
        trees.append(normalise(t, modes, states, p))
        checks.append(dict(kind="denote", z=k, tree=len(trees), x=0, y=0, k=0, margin=degree(t)))
        nofs.append((x, k, degree(t)))
        exprs.append(str(e))
        # round trip
        y = NOF.from_expr(x.as_expr(), operators=ops)
        ky = add_obj(y)
        checks.append(dict(kind="eq", z=ky, x=k, y=0, tree=0, k=0, margin=degree(t)))
        # adjoint
        xa = Dagger(x)
        if not isinstance(xa, NOF):
            xa = NOF.from_expr(xa, operators=ops)
        ka = add_obj(xa)
        checks.append(dict(kind="adj", z=ka, x=k, y=0, tree=0, k=0, margin=degree(t)))
    if len(nofs) >= 2:
        (x, kx, dx), (y, ky, dy) = nofs[0], nofs[1]
        z = x * y
        kz = add_obj(z)
        checks.append(dict(kind="prod", z=kz, x=kx, y=ky, tree=0, k=0, margin=dx + dy))
        s_ = x + y
        checks.append(dict(kind="sum", z=add_obj(s_), x=kx, y=ky, tree=0, k=0, margin=max(dx, dy)))
        d_ = x - y
        checks.append(dict(kind="diff", z=add_obj(d_), x=kx, y=ky, tree=0, k=0, margin=max(dx, dy)))
        if dx <= 2:
            pw = x ** 2
            checks.append(dict(kind="pow", z=add_obj(pw), x=kx, y=0, tree=0, k=2, margin=2 * dx))
        # higher integer powers (the power algorithm itself, not only repeated squares): as far as the
        # window leaves interior states (bosons 0..7: margin <= 6, ladders -4..4: margin <= 4)
        cap = min([6 if m["kind"] == "boson" else 4 for m in modes if m["kind"] in ("boson", "ladder")] or [8])
        for (w_, kw_, dw_) in ((x, kx, dx), (y, ky, dy)):
            ks = [k_ for k_ in (3, 4, 5, 6) if max(dw_, 1) * k_ <= cap]
            if ks and len(w_.args[1]) <= 4 if hasattr(w_, "args") else ks:
                k_ = rng.choice(ks[-2:])
                pw = w_ ** k_
                checks.append(dict(kind="pow", z=add_obj(pw), x=kw_, y=0, tree=0, k=k_, margin=max(dw_, 1) * k_))
        # (xy)^dagger = y^dagger x^dagger, computed both ways by the real class
        lhs = Dagger(z)
        rhs = Dagger(y) * Dagger(x)
        checks.append(dict(kind="eq", z=add_obj(lhs), x=add_obj(rhs), y=0, tree=0, k=0, margin=dx + dy))
        if len(nofs) >= 3 and dx + dy + nofs[2][2] <= 6:
            w, kw, dw = nofs[2]
            left = (x * y) * w
            right = x * (y * w)
            kl, kr = add_obj(left), add_obj(right)
            checks.append(dict(kind="eq", z=kl, x=kr, y=0, tree=0, k=0, margin=dx + dy + dw))
            checks.append(dict(kind="prod", z=kl, x=kz, y=kw, tree=0, k=0, margin=dx + dy + dw))
            dist_l = x * (y + w)
            dist_r = x * y + x * w
            checks.append(dict(kind="eq", z=add_obj(dist_l), x=add_obj(dist_r), y=0, tree=0, k=0,
                               margin=dx + max(dy, dw)))
    ses = dict(sid=sid, modes=[dict(kind=m["kind"], lo=m["lo"], hi=m["hi"]) for m in modes],
               states=[list(s) for s in states], strides=strides, objs=objs, trees=trees, checks=checks)
    meta = dict(modes=[(m["kind"], m["name"]) for m in modes], expressions=exprs,
                checks=[c["kind"] for c in checks], rational_with_ladder=rational_with_ladder(gtrees, modes))
    return ses, meta


def rational_with_ladder(trees, modes):
    """Input class of the known finding 'pole_cancellation': some expression of the session contains a
    RATIONAL function of the number operator of a boson / ladder mode, and operators of the same mode occur
    (their products shift the function through annihilators)."""
    rat, gen = set(), set()

    def walk(t):
        if t[0] == "fn" and t[1] == "rat":
            rat.add(t[2])
        elif t[0] == "gen":
            gen.add(t[1])
        elif t[0] in ("mul", "add"):
            for x in t[1]:
                walk(x)
        elif t[0] in ("pow", "dag"):
            walk(t[1])

    for t in trees:
        walk(t)
    return sorted(i for i in rat & gen if modes[i]["kind"] in ("boson", "ladder"))


def _job(args):
    sid, seed = args
    try:
        return ("ok", sid) + build_session(sid, seed)
    except Exception as e:  # noqa: BLE001
        return ("crash", sid, f"{type(e).__name__}: {e}\n{traceback.format_exc(limit=8)}", None)


def validate(sessions, workers=16, timeout=1500):
    res = common.run_tlc("Trace_Fock", CFG, trace=sessions, workers=workers, timeout=timeout)
    done = {t[1]: t[2] for t in res.lines("DONE")}
    fails = {}
    for t in res.lines("FAIL"):
        fails.setdefault(t[1], []).append((t[2], t[3]))
    missing = {s["sid"] for s in sessions} - set(done)
    if missing or res.rc != 0:
        raise MachineryError(f"Trace_Fock: no verdict for {sorted(missing)[:5]} rc={res.rc}\n" + res.out[-2500:])
    return res, done, fails


def run(pid, tier, seed, replay=None):
    t0 = time.time()
    quick = tier == "quick"
    n = 48 if quick else 600
    ids = list(range(1, n + 1)) if replay is None else [replay["sid"]]
    if replay is not None:
        seed = replay["seed"]
    with mp.get_context("fork").Pool(16) as pool:
        items = pool.map(_job, [(i, seed) for i in ids], chunksize=1)
    sessions, metas, violations, crashes = [], {}, [], []
    for it in items:
        if it[0] == "ok":
            sessions.append(it[2])
            metas[it[1]] = it[3]
        else:
            crashes.append(dict(sid=it[1], seed=seed, error=it[2][:700]))
    kf = common.load_known_findings()
    known = []
    if replay is None:
        w, wm = witness_session(10 ** 6)
        sessions.append(w)
        metas[w["sid"]] = wm
    for c in crashes:
        k = match_known_crash(c, kf)
        if k:
            known.append(k)
        else:
            violations.append(dict(kind="exception", **c))
    stats = dict(states=0, transitions=0)
    nchecks = 0
    for b in range(0, len(sessions), 64):
        chunk = sessions[b:b + 64]
        res, done, fails = validate(chunk)
        stats["states"] += res.distinct
        stats["transitions"] += res.generated
        for s in chunk:
            nchecks += len(s["checks"])
            if fails.get(s["sid"]):
                k = match_known_algebra(metas[s["sid"]], fails[s["sid"]], kf)
                if k:
                    known.append(k)
                    continue
                violations.append(dict(kind="algebra", sid=s["sid"], seed=seed, meta=metas[s["sid"]],
                                       failing=[(c, ln, s["checks"][ln - 1]) for c, ln in sorted(fails[s["sid"]])][:8]))
    control = None
    if replay is None and sessions:
        bad = copy.deepcopy(next(s for s in sessions if s["objs"] and s["objs"][0]["terms"]))
        bad["sid"] = 1
        tb = bad["objs"][0]["terms"][0]["tab"]
        for q in range(len(tb)):
            tb[q][0] = (tb[q][0] + 1) % common.P1
        _, _, cf = validate([bad], workers=4)
        if not cf.get(1):
            raise MachineryError("negative control accepted")
        control = dict(corrupted="coefficient table of the first term of the first object (+1 everywhere)",
                       rejected_by=sorted({c for c, _ in cf[1]}))
    lines = [f"KNOWN-FINDING: property={pid} {k}" for k in sorted(set(known))]
    for i, v in enumerate(violations[:10]):
        path = common.write_replay(pid, f"{tier}_{seed}_{i}", dict(property=pid, **v))
        lines.append(f"VIOLATION property={pid} replay={path}")
    coverage = dict(
        states=max(stats["states"], 1), transitions=max(stats["transitions"], 1),
        traces_validated_against_impl=len(sessions),
        samples=[metas[s["sid"]] for s in sessions[:2]] or [dict(note="none")],
        evaluations=nchecks, distinct_nontrivial=len({str(m["expressions"]) + str(m["modes"]) for m in metas.values()}),
        rule="session = (modes, three generated expressions); evaluations = algebraic checks (denote, round trip, adjoint, "
             "product, sum, difference, power, (xy)^dagger, associativity, distributivity) judged by TLC",
        crashes=len(crashes), negative_control=control, exhaustive=False)
    common.write_evidence(pid, tier, seed, coverage, time.time() - t0, len(violations),
                          ["bosons are represented in the unnormalised occupation basis (rational matrix elements); "
                           "identities are compared on basis states at least `margin` away from the truncation edges",
                           "coefficients are tabulated on the window of occupations (bosons 0..7, ladders -4..4)"])
    return lines, len(violations)


def witness_session(sid):
    """The fixed witness of the known finding 'pole_cancellation'."""
    from pymablock.number_ordered_form import NumberOrderedForm as NOF

    p = common.P1
    modes = [dict(kind="boson", name="a", lo=0, hi=7)]
    ops = sympy_ops(modes)
    states = states_of(modes)
    # a^dagger^2 (N+2)^-1 a^2  =  N - 1 on n >= 2 and 0 below; the library returns N - 1 everywhere
    tree = ("mul", [("pow", ("gen", 0, 1), 2), ("fn", "rat", 0, 1), ("pow", ("gen", 0, 0), 2)])
    x = NOF.from_expr(to_sympy(tree, ops, modes), operators=ops)
    objs = [nof_record(x, ops, modes, states, p)]
    checks = [dict(kind="denote", z=1, tree=1, x=0, y=0, k=0, margin=4)]
    ses = dict(sid=sid, modes=[dict(kind=m["kind"], lo=m["lo"], hi=m["hi"]) for m in modes],
               states=[list(s_) for s_ in states], strides=[1], objs=objs,
               trees=[normalise(tree, modes, states, p)], checks=checks)
    meta = dict(modes=[("boson", "a")], expressions=[str(to_sympy(tree, ops, modes))], checks=["denote"],
                rational_with_ladder=[0], witness=True)
    return ses, meta


def match_known_algebra(meta, fails, kf):
    for f in kf.get("findings", []):
        if f.get("property") == "C08" and f.get("matcher") == "pole_cancellation":
            # identified by the INPUT class: a rational function of N_i next to ladder operators of mode i;
            # sums, differences and adjoints never shift a coefficient and stay enforced
            if meta.get("rational_with_ladder") and all(c in ("C08.prod", "C08.pow", "C08.eq", "C08.denote")
                                                        for c, _ in fails):
                return f["what"]
    return None


def match_known_crash(c, kf):
    for f in kf.get("findings", []):
        if f.get("property") == "C08" and f.get("matcher") == "error_substring" and f["substring"] in c["error"]:
            return f["what"]
    return None
