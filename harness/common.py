"""Shared machinery: repo import, GF(p^2) abstraction, TLC runner, evidence.

Python here only (i) drives the real code, (ii) applies the abstraction
functions alpha, (iii) runs TLC and parses its verdict.  The verdict on every
property is TLC's.
"""

from __future__ import annotations

import json
import os
import random
import re
import shutil
import subprocess
import sys
import tempfile
import time
from fractions import Fraction
from pathlib import Path

VERIF = Path(__file__).resolve().parent.parent
SPEC = VERIF / "spec"
REPO = Path(os.environ.get("VERIF_REPO", "/repo"))
if str(REPO) not in sys.path:
    sys.path.insert(0, str(REPO))

P1 = 46199
P2 = 43991
PRIMES = (P1, P2)


class Regenerate(Exception):
    """The instance cannot be abstracted (p divides a denominator): draw another."""


class MachineryError(Exception):
    """TLC crashed / trace unparsable: exit code 2, never a violation."""


# ----------------------------------------------------------------------------
# alpha: concrete value -> GF(p^2) residues [re, im]
# ----------------------------------------------------------------------------
def red_int(n: int, p: int) -> int:
    return n % p


def red_frac(q: Fraction, p: int) -> int:
    if q.denominator % p == 0:
        raise Regenerate(f"p divides denominator {q.denominator}")
    return (q.numerator % p) * pow(q.denominator % p, -1, p) % p


def red_complex_frac(re_: Fraction, im_: Fraction, p: int) -> list[int]:
    return [red_frac(re_, p), red_frac(im_, p)]


def red_sympy(expr, p: int) -> list[int]:
    """alpha_exact: sympy Gaussian rational -> residues."""
    import sympy

    expr = sympy.sympify(expr)
    if expr.free_symbols:
        # a term of a series built from a sympy matrix carries its monomial: set the parameters to 1
        expr = expr.subs({x: 1 for x in expr.free_symbols})
    if not expr.is_Rational:
        expr = sympy.expand(expr)
    re_, im_ = expr.as_real_imag()
    if not (re_.is_Rational and im_.is_Rational):
        re_, im_ = sympy.nsimplify(re_, rational=True), sympy.nsimplify(im_, rational=True)
    if not (re_.is_Rational and im_.is_Rational):
        raise ValueError(f"not a Gaussian rational: {expr!r}")
    return [
        red_frac(Fraction(int(re_.p), int(re_.q)), p),
        red_frac(Fraction(int(im_.p), int(im_.q)), p),
    ]


def red_number(x, p: int) -> list[int]:
    """alpha for python/numpy scalars: ints, Fractions, floats (exact), complex."""
    import numpy as np

    if isinstance(x, (int, np.integer)):
        return [int(x) % p, 0]
    if isinstance(x, Fraction):
        return [red_frac(x, p), 0]
    if isinstance(x, (float, np.floating)):
        if not np.isfinite(x):
            raise NonFinite(repr(x))
        return [red_frac(Fraction(float(x)), p), 0]
    if isinstance(x, (complex, np.complexfloating)):
        if not (np.isfinite(x.real) and np.isfinite(x.imag)):
            raise NonFinite(repr(x))
        return [red_frac(Fraction(float(x.real)), p), red_frac(Fraction(float(x.imag)), p)]
    try:
        return red_sympy(x, p)
    except Exception as e:  # noqa: BLE001
        raise ValueError(f"cannot abstract {type(x)}: {x!r}") from e


class NonFinite(Exception):
    """A NaN/inf was returned by the implementation."""


def max_den_bits(x) -> int:
    """Bit length of the denominator of an exact dyadic float (diagnostics)."""
    return Fraction(float(x)).denominator.bit_length()


def red_matrix(a, p: int) -> list[list[list[int]]]:
    """Abstract a 2-D array-like (numpy / scipy.sparse / sympy Matrix)."""
    import numpy as np
    import sympy
    from scipy import sparse

    if sparse.issparse(a):
        a = a.toarray()
    if isinstance(a, sympy.MatrixBase):
        return [[red_sympy(a[i, j], p) for j in range(a.shape[1])] for i in range(a.shape[0])]
    a = np.asarray(a)
    if a.ndim != 2:
        raise ValueError(f"expected matrix, got shape {a.shape}")
    return [[red_number(a[i, j], p) for j in range(a.shape[1])] for i in range(a.shape[0])]


def zeros_res(r: int, c: int):
    return [[[0, 0] for _ in range(c)] for _ in range(r)]


def eye_res(d: int):
    return [[[1 if i == j else 0, 0] for j in range(d)] for i in range(d)]


# ----------------------------------------------------------------------------
# multi-orders in the canonical (graded lexicographic) sequence of the spec
# ----------------------------------------------------------------------------
def order_seq(k: int, N: int) -> list[tuple[int, ...]]:
    from itertools import product

    ords = [m for m in product(range(N + 1), repeat=k) if sum(m) <= N]
    ords.sort(key=lambda m: (sum(m), m))
    return ords


# ----------------------------------------------------------------------------
# TLC
# ----------------------------------------------------------------------------
_STATS = re.compile(r"(\d+) states generated, (\d+) distinct states found")


class TlcResult:
    def __init__(self, rc, out, wall):
        self.rc = rc
        self.out = out
        self.wall = wall
        m = None
        for m in _STATS.finditer(out):
            pass
        self.generated = int(m.group(1)) if m else 0
        self.distinct = int(m.group(2)) if m else 0
        self.tuples = []
        buf = None
        for line in out.splitlines():
            if buf is None:
                if line.startswith("<<"):
                    buf = line
                else:
                    continue
            else:
                buf += " " + line.strip()
            if buf.count("<<") <= buf.count(">>"):
                t = parse_tuple(buf)
                if t is not None:
                    self.tuples.append(t)
                buf = None
            elif len(buf) > 200000:
                buf = None
        self.error = (
            "Error:" in out or "error occurred" in out.lower() or rc not in (0,)
        )

    def lines(self, tag):
        return [t for t in self.tuples if t and t[0] == tag]


_TOK = re.compile(r'\s*(<<|>>|\{|\}|,|"(?:[^"\\]|\\.)*"|-?\d+|TRUE|FALSE)')


def parse_tuple(line: str):
    """Parse a PrintT'ed flat TLA+ tuple of strings / ints / booleans."""
    pos = 0
    out = []
    depth = 0
    line = line.strip()
    while pos < len(line):
        m = _TOK.match(line, pos)
        if not m:
            return None
        tok = m.group(1)
        pos = m.end()
        if tok == "<<":
            depth += 1
        elif tok == ">>":
            depth -= 1
        elif tok in ",{}":
            continue
        elif tok.startswith('"'):
            out.append(tok[1:-1])
        elif tok in ("TRUE", "FALSE"):
            out.append(tok == "TRUE")
        else:
            out.append(int(tok))
    return out if depth == 0 else None


def _json_default(o):
    import numpy as np

    if isinstance(o, np.integer):
        return int(o)
    if isinstance(o, (set, tuple)):
        return list(o)
    raise TypeError(f"not JSON serialisable: {type(o)}")


def run_tlc(
    module: str,
    cfg_text: str,
    *,
    trace: object | None = None,
    workers: int | str = 16,
    timeout: int = 1200,
    extra: list[str] | None = None,
    env_extra: dict | None = None,
    keep_dir: Path | None = None,
) -> TlcResult:
    """Run TLC on spec/<module>.tla with the given cfg text.

    `trace` (a JSON-serialisable object) is written to a private temp file and
    passed through the TRACE_FILE environment variable (read by IOEnv).
    Nothing survives in /tmp after the call.
    """
    work = Path(tempfile.mkdtemp(prefix="verif_tlc_"))
    try:
        cfg = work / f"{module}.cfg"
        cfg.write_text(cfg_text)
        env = dict(os.environ)
        if trace is not None:
            tf = work / "trace.json"
            tf.write_text(json.dumps(trace, default=_json_default))
            if os.environ.get("VERIF_KEEP_TRACE"):
                shutil.copy(tf, os.environ["VERIF_KEEP_TRACE"])
            env["TRACE_FILE"] = str(tf)
        if env_extra:
            env.update(env_extra)
        cmd = [
            "java",
            "-XX:+UseParallelGC",
            "-Xss64m",
            f"-Djava.io.tmpdir={work}",      # TLC unpacks its standard modules into java.io.tmpdir (tlc-*)
            "-cp",
            "/opt/veriftools/tla/tla2tools.jar:/opt/veriftools/tla/CommunityModules-deps.jar",
            "tlc2.TLC",
            "-workers",
            str(workers),
            "-metadir",
            str(work / "meta"),
            "-noGenerateSpecTE",
            "-config",
            str(cfg),
            *(extra or []),
            f"{module}.tla",
        ]
        t0 = time.time()
        try:
            pr = subprocess.run(
                cmd, cwd=SPEC, env=env, capture_output=True, text=True, timeout=timeout
            )
        except subprocess.TimeoutExpired as e:
            raise MachineryError(f"TLC timed out after {timeout}s on {module}") from e
        res = TlcResult(pr.returncode, pr.stdout + pr.stderr, time.time() - t0)
        if keep_dir is not None:
            keep_dir.mkdir(parents=True, exist_ok=True)
            (keep_dir / f"{module}.out").write_text(res.out)
        return res
    finally:
        shutil.rmtree(work, ignore_errors=True)


# ----------------------------------------------------------------------------
# evidence / verdict
# ----------------------------------------------------------------------------
def seed_from_env() -> int:
    try:
        return int(os.environ.get("VERIF_SEED", "0"))
    except ValueError:
        return 0


def write_evidence(pid: str, tier: str, seed: int, coverage: dict, wall: float,
                   violations: int, assumptions: list[str]):
    ev = {
        "property_id": pid,
        "tier": tier,
        "seed": seed,
        "level": "model_checking",
        "coverage": coverage,
        "assumptions": assumptions,
        "wall_s": round(wall, 2),
        "violations": violations,
    }
    d = VERIF / "evidence"
    if str(REPO) != "/repo":
        # a run against a scratch copy (mutation experiment) is not evidence about /repo
        d = Path(tempfile.gettempdir()) / "verif_evidence_scratch"
    d.mkdir(exist_ok=True)
    (d / f"{pid}.json").write_text(json.dumps(ev, indent=1, default=str))


def load_known_findings() -> dict:
    f = VERIF / "known_findings.json"
    if f.exists():
        return json.loads(f.read_text())
    return {"findings": [], "fixed": []}


def write_replay(pid: str, name: str, obj) -> Path:
    d = VERIF / "replay"
    d.mkdir(exist_ok=True)
    path = d / f"{pid}_{name}.json"
    path.write_text(json.dumps(obj, indent=1, default=str))
    return path


def rng_for(seed: int, *salt) -> random.Random:
    return random.Random(f"{seed}:{':'.join(map(str, salt))}")
