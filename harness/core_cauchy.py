"""Check C18: cauchy_dot_product is the multivariate Cauchy product.

  Mode A  MC_Cauchy: the loop of product_by_order as a TLA+ algorithm, every
          sentinel / cache pattern of the two factors (hermitian on and off);
          MC_Engine for the protocol.
  Mode B/C harness-built factor series (2..4 factors, rectangular block grids,
          1..3 parameters, zero / one sentinels, Gaussian-integer blocks) are
          multiplied by the real cauchy_dot_product; every element is requested
          in a seeded random order; the tracer's event stream, with the value of
          every finished cell, is validated by TLC against Trace_Cauchy.tla.
"""

from __future__ import annotations

import copy
import itertools
import time

import numpy as np

from . import common, tracer
from .common import MachineryError, order_seq

CFG = (common.SPEC / "Trace_Cauchy.cfg").read_text()
MC_CFG = (common.SPEC / "MC_Cauchy.cfg").read_text()


def rand_block(rng, r, c, complex_):
    re = np.array([[rng.randint(-3, 3) for _ in range(c)] for _ in range(r)], dtype=float)
    if not complex_:
        return re
    im = np.array([[rng.randint(-2, 2) for _ in range(c)] for _ in range(r)], dtype=float)
    return re + 1j * im


def make_factor(rng, name, rows, cols, k, N, complex_, dens):
    """A factor as a table {(i, j, n): 'zero' | 'one' | ndarray}."""
    tbl = {}
    for i in range(len(rows)):
        for j in range(len(cols)):
            for n in order_seq(k, N):
                u = rng.random()
                if u < dens["zero"]:
                    tbl[(i, j, *n)] = "zero"
                elif u < dens["zero"] + dens["one"] and rows[i] == cols[j] and i == j:
                    tbl[(i, j, *n)] = "one"
                else:
                    tbl[(i, j, *n)] = rand_block(rng, rows[i], cols[j], complex_)
    return dict(name=name, rows=list(rows), cols=list(cols), tbl=tbl)


def adjoint_factor(f, name):
    tbl = {}
    for (i, j, *n), v in f["tbl"].items():
        tbl[(j, i, *n)] = v if isinstance(v, str) else v.conj().T.copy()
    return dict(name=name, rows=list(f["cols"]), cols=list(f["rows"]), tbl=tbl)


def hermitian_factor(rng, name, rows, k, N, complex_, dens):
    f = make_factor(rng, name, rows, rows, k, N, complex_, dens)
    for (i, j, *n), v in list(f["tbl"].items()):
        if i > j:
            w = f["tbl"][(j, i, *n)]
            f["tbl"][(i, j, *n)] = w if isinstance(w, str) else w.conj().T.copy()
        elif i == j and not isinstance(v, str):
            f["tbl"][(i, j, *n)] = (v + v.conj().T) / 2 * 2  # keep integers: v + v^dagger
    return f


def to_series(f, k):
    from pymablock.series import BlockSeries, one, zero

    tbl = f["tbl"]

    def ev(*index):
        v = tbl.get(tuple(index), "zero")
        return zero if isinstance(v, str) and v == "zero" else one if isinstance(v, str) else v

    return BlockSeries(eval=ev, shape=(len(f["rows"]), len(f["cols"])), n_infinite=k, name=f["name"])


def res_of(v, p):
    from pymablock.series import one, zero

    if v is zero:
        return "zero", []
    if v is one:
        return "one", []
    return "val", common.red_matrix(np.asarray(v), p)


def res_of_tbl(v, p):
    from pymablock.series import one, zero

    if isinstance(v, str):
        return v, []
    if v is zero:
        return "zero", []
    if v is one:
        return "one", []
    return "val", common.red_matrix(np.asarray(v), p)


def build_session(rng, sid, p, *, nfac, k, N, hermitian_flag, dens, complex_, opscale=1):
    """Build factors, multiply with the real code, request everything; return session."""
    from pymablock.series import cauchy_dot_product

    grid = [rng.choice([1, 2, 2, 3]) for _ in range(nfac + 1)]
    dims = [[rng.choice([1, 2, 3]) for _ in range(g)] for g in grid]
    if hermitian_flag:
        # products that ARE Hermitian: A A^dagger, A B A^dagger (B Hermitian), A B B^dagger A^dagger
        A = make_factor(rng, "A", dims[0], dims[1], k, N, complex_, dens)
        if nfac == 2:
            facs = [A, adjoint_factor(A, "Ad")]
        elif nfac == 3:
            B = hermitian_factor(rng, "B", dims[1], k, N, complex_, dens)
            facs = [A, B, adjoint_factor(A, "Ad")]
        else:
            B = make_factor(rng, "B", dims[1], dims[2], k, N, complex_, dens)
            facs = [A, B, adjoint_factor(B, "Bd"), adjoint_factor(A, "Ad")]
    else:
        facs = [make_factor(rng, "ABCD"[a], dims[a], dims[a + 1], k, N, complex_, dens) for a in range(nfac)]
    ords = order_seq(k, N)

    def table_fp(getter):
        fp = []
        for a, f in enumerate(facs):
            for i in range(len(f["rows"])):
                for kk in range(len(f["cols"])):
                    for n in ords:
                        tag, res = res_of_tbl(getter(a, (i, kk, *n)), p)
                        fp.append([tag, res])
        return fp

    fp0 = table_fp(lambda a, idx: copy.deepcopy(facs[a]["tbl"][idx]))
    ses = tracer.Session()
    ses.value_fn = lambda v: res_of(v, p)[1]
    with ses:
        series = [to_series(f, k) for f in facs]
        count0 = ses._count
        if opscale == 1:
            P = cauchy_dot_product(*series, hermitian=hermitian_flag)
        else:
            # a user-supplied element product that is NOT matmul: op(x, y) = opscale * (x @ y)
            P = cauchy_dot_product(*series, hermitian=hermitian_flag, operator=lambda x, y: opscale * (x @ y))
        # products are registered in creation order: F1.F2, (F1.F2).F3, ...
        created = [ses._ids[id_] for id_ in list(ses._ids)][count0:]
        labels = [ses.label(s) for s in series]
        prods = created[: len(facs) - 1]
        if len(prods) != len(facs) - 1 or ses.label(P) != prods[-1]:
            # the intermediate products are not the left-associated chain this harness knows (a different
            # but possibly correct way to build the n-ary product): judge the FINAL product only -- its cells
            # against the definition of the full product, the engine protocol for everything
            prods = [f"?intermediate{a}" for a in range(2, len(facs))] + [ses.label(P)]
        nr, nc = len(facs[0]["rows"]), len(facs[-1]["cols"])
        cells = [(i, j, n) for i in range(nr) for j in range(nc) for n in ords]
        rng.shuffle(cells)
        extra = [rng.choice(cells) for _ in range(3)]
        for (i, j, n) in cells + extra:
            ses.emit("req", kind="cells", cells=[ses.cell(P, (i, j, *n))])
            try:
                v = P[(i, j, *n)]
            except BaseException as e:  # noqa: BLE001
                ses.emit("raise", exc=type(e).__name__, pending=ses.pending_cells())
                ses.unwinding = False
                continue
            tag, res = res_of(v, p)
            ses.emit("ret", vals=[dict(ses.cell(P, (i, j, *n)), tag=tag, v=res, want=res)],
                     pending=ses.pending_cells())
        # the factor elements handed in by the caller must not have been mutated:
        # re-read every factor cell (cached object or table entry) and fingerprint again
        n_ev = len(ses.events)
        fp1 = table_fp(lambda a, idx: series[a][idx])
        del ses.events[n_ev:]   # the re-read itself is not part of the product's behaviour
        ses.emit("inputs", fp=fp1)
    chain = []
    for f, lbl in zip(facs, labels):
        cell = []
        for i in range(len(f["rows"])):
            for kk in range(len(f["cols"])):
                for n in ords:
                    v = f["tbl"][(i, kk, *n)]
                    if isinstance(v, str):
                        cell.append(dict(tag=v, v=[]))
                    else:
                        cell.append(dict(tag="val", v=common.red_matrix(v, p)))
        chain.append(dict(label=lbl, nr=len(f["rows"]), nc=len(f["cols"]), rows=f["rows"], cols=f["cols"], cell=cell))
    events = []
    from .engine_run import DEFAULTS

    for e in ses.events:
        ev = dict(DEFAULTS)
        ev.update(e)
        ev["had"] = 1 if ev["had"] is True else 0
        events.append(ev)
    meta = dict(nfac=nfac, k=k, N=N, hermitian=hermitian_flag, grid=grid, dims=dims, complex=complex_, dens=dens,
                factors=[{"name": f["name"], "tags": {",".join(map(str, kx)): (v if isinstance(v, str) else "val")
                                                      for kx, v in list(f["tbl"].items())[:12]}} for f in facs])
    meta["opscale"] = opscale
    return dict(sid=sid, inputs=[], fp0=fp0, ev=events, chain=chain, prods=prods,
                ords=[list(n) for n in ords], opscale=opscale), meta


def bare_one_sum_cells(sess):
    """Product cells whose definition adds a bare `one` term (every factor element is the
    `one` sentinel) to at least one other non-zero term.  The real code cannot form that
    sum (the sentinel has no size): known finding, identified by this structural class."""
    ords = [tuple(o) for o in sess["ords"]]
    no = len(ords)
    pos = {o: q for q, o in enumerate(ords)}

    def fac_tag(f, i, k, q):
        return f["cell"][(i * f["nc"] + k) * no + q]["tag"]

    chain = sess["chain"]
    prev = {(i, k, q): fac_tag(chain[0], i, k, q) for i in range(chain[0]["nr"]) for k in range(chain[0]["nc"])
            for q in range(no)}
    bad = set()
    for a in range(1, len(chain)):
        f = chain[a]
        cur = {}
        for i in range(chain[0]["nr"]):
            for j in range(f["nc"]):
                for q, n in enumerate(ords):
                    kinds = []
                    for k in range(f["nr"]):
                        for q1, m in enumerate(ords):
                            rest = tuple(x - y for x, y in zip(n, m))
                            if min(rest, default=0) < 0 or rest not in pos:
                                continue
                            t1, t2 = prev[(i, k, q1)], fac_tag(f, k, j, pos[rest])
                            if t1 == "zero" or t2 == "zero":
                                continue
                            kinds.append("one" if t1 == "one" and t2 == "one" else "val")
                    if not kinds:
                        cur[(i, j, q)] = "zero"
                    elif kinds == ["one"]:
                        cur[(i, j, q)] = "one"
                    else:
                        cur[(i, j, q)] = "val"
                        if "one" in kinds:
                            bad.add((sess["prods"][a - 1], i, j, n))
        prev = cur
    return bad


def validate(sessions, workers=16, timeout=2400):
    res = common.run_tlc("Trace_Cauchy", CFG, trace=sessions, workers=workers, timeout=timeout)
    acc = {t[1]: t for t in res.lines("ACCEPT")}
    rej = {t[1]: t for t in res.lines("REJECT")}
    missing = {s["sid"] for s in sessions} - set(acc) - set(rej)
    if missing or res.rc != 0:
        raise MachineryError(f"Trace_Cauchy gave no verdict for {sorted(missing)[:5]} rc={res.rc}\n" + res.out[-3000:])
    return res, acc, rej


def run(pid, tier, seed, replay=None):
    t0 = time.time()
    p = common.P1
    quick = tier == "quick"
    stats = dict(states=0, transitions=0, traces=0)
    mode_a = []
    if replay is None:
        for herm in ("FALSE", "TRUE"):
            cfg = MC_CFG.replace("CONSTANT Hermitian = FALSE", f"CONSTANT Hermitian = {herm}")
            if not quick:
                cfg = cfg.replace("CONSTANT MaxN = 2", "CONSTANT MaxN = 3")
            r = common.run_tlc("MC_Cauchy", cfg, timeout=3000)
            if "No error has been found" not in r.out:
                raise MachineryError("MC_Cauchy failed:\n" + r.out[-2500:])
            stats["states"] += r.distinct
            stats["transitions"] += r.generated
            mode_a.append(dict(spec="MC_Cauchy", hermitian=herm, distinct_states=r.distinct, exhaustive=True))
    n_sessions = 120 if quick else 1500
    sessions, metas = [], {}
    specs = []
    if replay is not None:
        specs = [replay["spec"]]
    else:
        for sid in range(1, n_sessions + 1):
            r = common.rng_for(seed, pid, "spec", sid)
            specs.append(dict(sid=sid, nfac=r.choice([2, 2, 3, 3, 4]), k=r.choice([1, 1, 2, 3]),
                              hermitian_flag=sid % 3 == 0,
                              dens=r.choice([dict(zero=0.0, one=0.0), dict(zero=0.3, one=0.15),
                                             dict(zero=0.6, one=0.1), dict(zero=0.15, one=0.4)]),
                              complex_=r.random() < 0.5))
    if replay is None:
        # stratum present in every run: Hermitian products of two factors in THREE parameters up to total order
        # 3 (mirrored splits that differ only in a middle order, e.g. (0,1,0)/(0,0,1) of (0,1,1), (0,1,0)/(0,2,0)
        # of (0,3,0)) -- only a comparison of the whole order tuples keeps exactly one term of each pair
        for q, sp in enumerate(specs):
            if sp["sid"] % 15 == 0:
                sp.update(nfac=2, k=3, hermitian_flag=True, forceN=3 if (sp["sid"] // 15) % 2 else 2,
                          dens=[dict(zero=0.0, one=0.0), dict(zero=0.15, one=0.15)][(sp["sid"] // 15) % 2])
    if replay is None:
        # stratum: a user-supplied element product (2 * matmul) with 3 and 4 factors, no `one` sentinels
        # (op(one, X) = X by definition, so the scale would not be uniform)
        for sp in specs:
            if sp["sid"] % 15 == 7:
                sp.update(nfac=3 + (sp["sid"] // 15) % 2, hermitian_flag=False, opscale=2,
                          dens=dict(zero=0.2, one=0.0))
    for sp in specs:
        r = common.rng_for(seed, pid, "build", sp["sid"])
        N = {1: 3, 2: 2, 3: 1}[sp["k"]] if quick else {1: 4, 2: 2, 3: 2}[sp["k"]]
        if sp["nfac"] == 4:
            N = min(N, 2)
        if sp.get("forceN"):
            N = sp["forceN"]
        elif quick and sp["k"] == 3 and sp["hermitian_flag"] and sp["nfac"] <= 3:
            # three parameters at total order 2: mirrored splits such as (0,1,0)/(0,0,1) of (0,1,1), which
            # only a comparison of the WHOLE order tuples tells apart
            N = 2
        s, m = build_session(r, sp["sid"], p, nfac=sp["nfac"], k=sp["k"], N=N, hermitian_flag=sp["hermitian_flag"],
                             dens=sp["dens"], complex_=sp["complex_"], opscale=sp.get("opscale", 1))
        sessions.append(s)
        metas[sp["sid"]] = dict(spec=sp, meta=m)
    violations = []
    known = []
    kf = common.load_known_findings()
    for b in range(0, len(sessions), 150):
        chunk = sessions[b:b + 150]
        res, acc, rej = validate(chunk)
        stats["states"] += res.distinct
        stats["transitions"] += res.generated
        stats["traces"] += len(chunk)
        for s in chunk:
            if s["sid"] in rej:
                t = rej[s["sid"]]
                evr = s["ev"][t[2] - 1]
                k = match_known(s, evr, kf)
                if k:
                    known.append(k)
                    continue
                violations.append(dict(spec=metas[s["sid"]]["spec"], meta=metas[s["sid"]]["meta"],
                                       rejected_at_event=t[2], event=t[3], clause=t[4],
                                       event_record={k: v for k, v in s["ev"][t[2] - 1].items()
                                                     if k in ("t", "s", "i", "tag", "exc")}))
    control = negative_controls(sessions) if replay is None else None
    lines = [f"KNOWN-FINDING: property={pid} {k}" for k in sorted(set(known))]
    for i, v in enumerate(violations[:10]):
        path = common.write_replay(pid, f"{tier}_{seed}_{i}", dict(property=pid, **v))
        lines.append(f"VIOLATION property={pid} replay={path}")
    samples = [dict(session=metas[s["sid"]], events=len(s["ev"])) for s in sessions[:2]]
    coverage = dict(
        states=max(stats["states"], 1), transitions=max(stats["transitions"], 1),
        traces_validated_against_impl=stats["traces"], samples=samples or [dict(note="none")],
        evaluations=len(sessions),
        distinct_nontrivial=len({(m["spec"]["nfac"], m["spec"]["k"], m["spec"]["hermitian_flag"],
                                  str(m["meta"]["dims"]), str(m["spec"]["dens"])) for m in metas.values()}),
        rule="product session = (#factors 2-4, #parameters 1-3, hermitian flag, block grid and block sizes, sentinel "
             "densities); every element requested in random order + repeats; distinct by those attributes",
        events_validated=sum(len(s["ev"]) for s in sessions), mode_a=mode_a,
        sessions_hitting_known_findings=len(known), negative_controls=control,
        exhaustive=False)
    common.write_evidence(pid, tier, seed, coverage, time.time() - t0, len(violations),
                          ["blocks are small Gaussian-integer matrices: float products are exact",
                           "tracer observes eval calls of factor and product series; cache hits are not observed"])
    return lines, len(violations)


def match_known(sess, evr, kf):
    for f in kf.get("findings", []):
        if f.get("property") != "C18" or f.get("matcher") != "bare_one_sum":
            continue
        # TypeError from `one + X`; with hermitian=True the mirrored half is formed as
        # `term + Dagger(term)` and Dagger(one) raises sympy's SympifyError instead
        if evr["t"] == "fail" and evr["exc"] in ("TypeError", "SympifyError"):
            cell = (evr["s"], evr["i"][0], evr["i"][1], tuple(evr["ord"]))
            if cell in bare_one_sum_cells(sess):
                return f["what"]
    return None


def negative_controls(sessions):
    cases = []
    base = next(s for s in sessions if any(e["t"] == "end" and e["tag"] == "val" and e["s"].split("#")[0].count("@")
                                           for e in s["ev"]))
    s = copy.deepcopy(base)
    e = next(e for e in s["ev"] if e["t"] == "end" and e["tag"] == "val" and "@" in e["s"])
    e["v"][0][0][0] = (e["v"][0][0][0] + 1) % common.P1
    s["sid"] = 1
    cases.append(("product-cell+1", s))
    # a factor request although the complement is known zero: forge a zero end for the complement first
    res, acc, rej = validate([c[1] for c in cases], workers=4, timeout=600)
    out = []
    for name, s in cases:
        if s["sid"] not in rej:
            raise MachineryError(f"negative control '{name}' accepted")
        out.append(dict(control=name, rejected_with=rej[s["sid"]][4]))
    return out
