"""Checks C01-C04: the Hermitian defining equations, uniqueness, spectrum.

Decision procedure (see DESIGN.md section 4):
  Mode A  MC_LeastAction: TLC enumerates every configuration within small
          bounds and checks the reference solver against the defining equations.
  Mode C  Trace_LeastAction: runs of the REAL block_diagonalize (sympy exact,
          numpy real/complex dyadic, scipy sparse dyadic; every form of
          fully_diagonalize; 1-4 blocks; 1-3 parameters; terms at arbitrary
          orders) are validated by TLC clause by clause.
  Control one corrupted copy of a validated trace must be rejected.
"""

from __future__ import annotations

import copy
import multiprocessing as mp
import time
import traceback

from . import common, hermitian
from .common import MachineryError, NonFinite, Regenerate

CLAUSES = {
    "C01": ("C01.",),
    "C02": ("C02.",),
    "C03": ("C03.",),
    "C04": ("C04.",),
}

TRACE_CFG = """CONSTANT P = {p}
CONSTANT RawCfgs <- TraceRaw
INIT TInit
NEXT TNext
CHECK_DEADLOCK FALSE
INVARIANT TraceWellFormed
"""

MC_CFG = """CONSTANT P = {p}
CONSTANT RawCfgs <- MCRaw
CONSTANT Dims = {dims}
CONSTANT MaxLevel = {levels}
CONSTANT MaxK = {maxk}
CONSTANT MaxN = {maxn}
CONSTANT Seed = {seed}
INIT Init
NEXT Next
CHECK_DEADLOCK FALSE
INVARIANT InvDefining
INVARIANT InvInputOK
"""

UNIQUE_CFG = """CONSTANT P = 3
CONSTANT Dims = {dims}
CONSTANT MaxLevel = {levels}
INIT Init
NEXT Next
INVARIANT InvSymmetric
INVARIANT InvUniqueIffWellPosed
INVARIANT InvIllPosedWitness
INVARIANT InvGaugeNeeded
CHECK_DEADLOCK FALSE
"""

VTYPES = ["sympy", "sympy", "numpy", "numpy_complex", "sparse", "sympy"]


def plan(tier, pid):
    if tier == "quick":
        return dict(n=48, batch=48, primes=(common.P1,), mc=dict(dims="{2, 3}", levels=2, maxk=1, maxn=3),
                    dmax=5)
    return dict(n=640, batch=64, primes=(common.P1, common.P2),
                mc=dict(dims="{2, 3}", levels=2, maxk=2, maxn=3), dmax=6)


def _one(args):
    seed, pid, idx, p, dmax, spectrum = args
    rng = common.rng_for(seed, pid, "inst", idx)
    vtype = VTYPES[idx % len(VTYPES)]
    for attempt in range(20):
        try:
            d = rng.choice([2, 3, 3, 4, 4, 5] + ([6] if dmax >= 6 else []))
            k = rng.choice([1, 1, 2, 2, 3])
            if d >= 5 and k == 3:
                k = 2
            N = {1: rng.choice([4, 5]), 2: rng.choice([3, 4]), 3: 3}[k]
            if d >= 5:
                N = min(N, 4 if k == 1 else 3)
            if vtype != "sympy" and k == 1:
                N = min(N, 4)
            corner = "zero_block" if idx < 6 else "degenerate_fd" if idx < 12 and d >= 4 else \
                "selective_last" if idx < 18 else "partial_tuple" if idx < 24 else \
                "large_offset" if idx < 30 else None
            kw = {}
            if corner is not None or (vtype == "sympy" and d >= 4):
                # exact sympy runs of 5x5 complex problems at order 5 take minutes
                N = min(N, 4 if k == 1 else 3)
            offset_after = False
            if corner == "large_offset":
                # a fully diagonalised block with distinct AND degenerate levels (the degenerate_fd
                # construction), far from zero energy: the level spacings are 1e-6 of the levels
                corner, offset_after = "degenerate_fd", True
                kw = dict(sizes=rng.choice([[3, 1], [1, 3], [3, 2], [2, 3]]), shuffle=False)
                d = sum(kw["sizes"])
            if corner == "partial_tuple":
                kw = dict(sizes=rng.choice([[2, 2], [1, 2], [2, 3], [2, 1, 2], [3, 2]]), shuffle=False)
                kw["d"] = sum(kw["sizes"])
                d = kw.pop("d")
            if corner == "selective_last":
                kw = dict(sizes=rng.choice([[1, 3], [2, 3], [1, 1, 3], [3, 3]]), shuffle=False)
                kw["d"] = sum(kw["sizes"])
                d = kw.pop("d")
                N = 4 if k == 1 else N
            inst = hermitian.gen_instance(rng, d=d, k=k, N=N, vtype=vtype, corner=corner, **kw)
        except Regenerate:
            continue
        if all(hermitian.epair(e) == (0, 0) for e in inst["E"]):
            continue     # H_0 = 0 is refused up front by the library (ValueError): not an accepted input
        if offset_after:
            hermitian.add_offset(inst)
        if 30 <= idx < 38:
            # stratum "tiny term": the last parameter's first-order term has entries of ~1e-9
            hermitian.shrink_parameter(inst)
        if vtype == "sympy" and idx % len(VTYPES) == 1 and inst["k"] >= 2:
            # the Hamiltonian as ONE sympy matrix in the perturbative symbols (mixed monomials x*y, x**2*y ...
            # occur among the randomly chosen multi-orders): the library Taylor-expands it; the truth stays
            # the instance's own coefficient matrices
            inst["format"] = "sympy_matrix"
            names = ["q", "a", "m", "z"][: inst["k"]]
            rng.shuffle(names)
            inst["symnames"] = names          # explicit `symbols=` in non-alphabetical order
        # every third sympy instance has SYMBOLIC unperturbed levels and a symbolic coupling constant
        if vtype == "sympy" and idx % len(VTYPES) == 5 and inst["d"] <= 4 and not any(
                epair_[1] != 0 for epair_ in map(hermitian.epair, inst["E"])):
            inst["symbolic_consts"] = True
            inst["N"] = min(inst["N"], 3)
        # every other numpy / sparse instance presents integer-valued terms (H_0 = np.diag of ints) in int64
        inst["int_dtype"] = vtype in ("numpy", "sparse") and (idx // len(VTYPES)) % 2 == 0
        if not offset_after and (corner == "degenerate_fd" or idx % 2 == 1):
            # stratum "rounding-level splitting" (float value types, degenerate pair in a fully diagonalised block)
            hermitian.add_jitter(inst)
        desc = hermitian.describe(inst)
        try:
            sess = hermitian.make_session(inst, idx + 1, p, spectrum=1 if (spectrum and inst["d"] <= 5) else 0)
            return ("ok", idx, sess, desc)
        except Regenerate:
            continue
        except NonFinite as e:
            return ("nonfinite", idx, str(e), desc)
        except hermitian.NotRepresentable as e:
            return ("notrepr", idx, str(e), desc)
        except Exception as e:  # noqa: BLE001
            return ("crash", idx, f"{type(e).__name__}: {e}\n{traceback.format_exc(limit=6)}", desc)
    return ("skip", idx, "could not generate", None)


def validate_sessions(sessions, p, workers=16, timeout=1500):
    res = common.run_tlc("Trace_LeastAction", TRACE_CFG.format(p=p), trace=sessions,
                         workers=workers, timeout=timeout)
    done = {t[1]: t[2] for t in res.lines("DONE")}
    fails = {}
    for t in res.lines("FAIL"):
        fails.setdefault(t[1], []).append((t[2], t[3]))
    ill = [t[1] for t in res.lines("ILLPOSED")]
    expected = {s["sid"] for s in sessions}
    missing = expected - set(done) - set(ill)
    if missing or "TraceWellFormed" in res.out and "violated" in res.out or res.rc != 0:
        raise MachineryError(
            f"TLC did not deliver a verdict for sessions {sorted(missing)[:5]} (rc={res.rc}):\n"
            + res.out[-2000:]
        )
    return res, done, fails, ill


def corrupt(sess, rng, p):
    """Negative control: one residue + 1 in one logged matrix at a non-zero order."""
    s = copy.deepcopy(sess)
    pos = rng.randrange(1, len(s["out"]))
    field = rng.choice(["U", "Ud", "Ht"])
    d = s["d"]
    i = rng.randrange(d)
    j = i if field == "Ht" else rng.randrange(d)
    s["out"][pos][field][i][j][0] = (s["out"][pos][field][i][j][0] + 1) % p
    s["sid"] = 1
    return s, dict(order_index=pos + 1, field=field, entry=[i, j])


def run_mode_a(p, mc, seed):
    res = common.run_tlc("MC_LeastAction", MC_CFG.format(p=p, seed=seed % 1000 + 1, **mc), timeout=3000)
    ok = "Model checking completed. No error has been found." in res.out
    return res, ok


def run(pid, tier, seed, replay=None):
    t0 = time.time()
    pl = plan(tier, pid)
    prefixes = CLAUSES[pid]
    violations = []
    known_hits = []
    kf = common.load_known_findings()
    samples = []
    stats = dict(states=0, transitions=0, traces=0, crashes=0, skipped=0)
    nontrivial = set()
    crash_examples = []

    # ---- Mode A -----------------------------------------------------------
    mode_a = None
    if replay is None:
        res_a, ok_a = run_mode_a(pl["primes"][0], pl["mc"], seed)
        if not ok_a:
            raise MachineryError("Mode A (MC_LeastAction) did not complete cleanly:\n" + res_a.out[-3000:])
        stats["states"] += res_a.distinct
        stats["transitions"] += res_a.generated
        mode_a = dict(spec="MC_LeastAction", constants=pl["mc"], distinct_states=res_a.distinct,
                      states_generated=res_a.generated, wall_s=round(res_a.wall, 1),
                      invariants=["InvDefining", "InvInputOK"], exhaustive=True)
        if pid == "C03":
            # uniqueness: over GF(3^2), every structure and EVERY candidate matrix -- the homogeneous
            # defining equations have only the zero solution iff the structure is well posed
            uniq = []
            for dims, levels in ([("{2}", 2)] if tier == "quick" else [("{2}", 2), ("{3}", 1)]):
                r = common.run_tlc("MC_Unique", UNIQUE_CFG.format(dims=dims, levels=levels), timeout=6000)
                if "Model checking completed. No error has been found." not in r.out:
                    raise MachineryError("MC_Unique did not complete cleanly:\n" + r.out[-3000:])
                stats["states"] += r.distinct
                stats["transitions"] += r.generated
                uniq.append(dict(spec="MC_Unique", field="GF(3^2)", dims=dims, max_level=levels,
                                 structures=r.distinct // 2, wall_s=round(r.wall, 1),
                                 candidates_per_structure="all 6561 2x2 matrices" if dims == "{2}"
                                 else "all 19683 anti-Hermitian 3x3 matrices",
                                 invariants=["InvUniqueIffWellPosed", "InvIllPosedWitness", "InvGaugeNeeded"],
                                 exhaustive=True))
            mode_a["uniqueness"] = uniq

    # ---- Mode C -----------------------------------------------------------
    for p in pl["primes"]:
        if replay is not None:
            inst = hermitian.from_description(replay["instance"])
            items = [("ok", 0, hermitian.make_session(inst, 1, p, spectrum=1 if inst["d"] <= 5 else 0),
                      replay["instance"])]
        else:
            jobs = [(seed, pid, i, p, pl["dmax"], pid == "C04" or tier == "thorough") for i in range(pl["n"])]
            with mp.get_context("fork").Pool(16) as pool:
                items = pool.map(_one, jobs, chunksize=1)
        sessions, descs = [], {}
        for it in items:
            kind, idx = it[0], it[1]
            if kind == "ok":
                sessions.append(it[2])
                descs[it[2]["sid"]] = it[3]
            elif kind == "skip":
                stats["skipped"] += 1
            elif kind == "crash":
                stats["crashes"] += 1
                if len(crash_examples) < 3:
                    crash_examples.append(dict(instance=it[3], error=it[2][:400]))
                # an exception while evaluating an ACCEPTED well-posed input falsifies C01 (reported there only)
                if pid == "C01":
                    violations.append(dict(kind="crash", detail=it[2][:600], instance=it[3]))
            elif kind in ("nonfinite", "notrepr"):
                # a non-finite or non-representable value returned for a well-posed
                # input falsifies C01 (the identity cannot hold) -- reported there only
                if pid == "C01":
                    violations.append(dict(kind=kind, detail=it[2], instance=it[3]))
        for b in range(0, len(sessions), pl["batch"]):
            batch = sessions[b:b + pl["batch"]]
            res, done, fails, ill = validate_sessions(batch, p)
            stats["states"] += res.distinct
            stats["transitions"] += res.generated
            stats["traces"] += len(done)
            if ill:
                raise MachineryError(f"generator produced ill-posed sessions {ill}")
            for s in batch:
                d = descs[s["sid"]]
                nontrivial.add((d["d"], tuple(d["sizes"]), d["k"], d["N"], d["vtype"], d["fdkind"],
                                tuple(d["fd_blocks"]), len(d["terms"])))
                mine = [f for f in fails.get(s["sid"], []) if f[0].startswith(prefixes)]
                if mine:
                    violations.append(dict(kind="clause", clauses=sorted(set(mine)), instance=d, p=p))
            if not samples and batch:
                d0 = descs[batch[0]["sid"]]
                samples.append(dict(instance=d0, verdict=fails.get(batch[0]["sid"], [])))
                if len(batch) > 1:
                    samples.append(dict(instance=descs[batch[-1]["sid"]], verdict=fails.get(batch[-1]["sid"], [])))
        # ---- negative control --------------------------------------------
        if replay is None and sessions:
            rng = common.rng_for(seed, pid, "control", p)
            good = [s for s in sessions if len(s["out"]) > 1]
            base = rng.choice(good)
            bad, what = corrupt(base, rng, p)
            bad["spectrum"] = 1 if bad["d"] <= 5 else 0
            _, _, cf, _ = validate_sessions([bad], p, workers=2, timeout=600)
            if not cf.get(1):
                raise MachineryError(f"negative control not rejected: {what}")
            stats["control"] = dict(corrupted=what, rejected_by=sorted({c for c, _ in cf[1]}))

    # ---- C04 on implicit-mode inputs --------------------------------------------
    # "every Hermitian input": with incomplete eigenvectors the effective Hamiltonian of the explicit
    # blocks must be the one of the complete-basis twin, whose spectrum clause TLC checks here
    implicit_stage = None
    if pid == "C04" and replay is None:
        from . import core_implicit, core_relations

        p0 = pl["primes"][0]
        n_imp = 12 if tier == "quick" else 96
        jobs = [(seed, 50_000 + i, p0, dict(solver="direct", sparse_terms=bool(i % 2)), 1, "C04") for i in range(n_imp)]
        with mp.get_context("fork").Pool(16) as pool:
            items = pool.map(core_implicit._job, jobs, chunksize=1)
        ok = [it for it in items if it[0] == "ok"]
        for it in items:
            if it[0] in ("bad_value", "crash"):
                violations.append(dict(kind="implicit_" + it[0], detail=it[2][:500], **it[4]))
        if ok:
            twins = [it[3] for it in ok]
            rels = [it[2] for it in ok]
            meta_i = {it[2]["sid"]: it[4] for it in ok}
            r, done, fails, ill = validate_sessions(twins, p0)
            stats["states"] += r.distinct
            stats["transitions"] += r.generated
            for sid, f in fails.items():
                mine = [x for x in f if x[0].startswith(prefixes)]
                if mine:
                    violations.append(dict(kind="clause", clauses=sorted(set(mine)), instance=meta_i[sid]["instance"], p=p0))
            r, done, rfails = core_relations.validate(rels, p0)
            stats["states"] += r.distinct
            stats["transitions"] += r.generated
            for sid, f in rfails.items():
                mine = [x for x in f if x[0].endswith(".Ht")]
                if mine:
                    violations.append(dict(kind="implicit_effective_hamiltonian_differs_from_twin",
                                           clauses=sorted(set(mine))[:10], **meta_i[sid]))
            stats["traces"] += len(ok)
        implicit_stage = dict(pairs=len(ok), of=n_imp, rule="implicit run (direct solver, dense / sparse terms) vs complete-basis "
                              "twin: H_tilde equal under the embedding; twin's characteristic polynomial validated")

    # ---- verdict -----------------------------------------------------------
    out_lines = []
    new_violations = []
    for v in violations:
        match = match_known(pid, v, kf)
        if match:
            known_hits.append(match)
        else:
            new_violations.append(v)
    for m in sorted(set(known_hits)):
        out_lines.append(f"KNOWN-FINDING: property={pid} {m}")
    for i, v in enumerate(new_violations[:10]):
        path = common.write_replay(pid, f"{tier}_{seed}_{i}", dict(property=pid, **v))
        out_lines.append(f"VIOLATION property={pid} replay={path}")
    coverage = dict(
        states=max(stats["states"], 1),
        transitions=max(stats["transitions"], 1),
        traces_validated_against_impl=stats["traces"],
        samples=samples or [dict(note="no session validated")],
        evaluations=stats["traces"],
        distinct_nontrivial=len(nontrivial),
        rule=("instance = (dimension, block sizes, #parameters, max order, value type, fully_diagonalize form, "
              "blocks named, #perturbation terms); each is run through the real block_diagonalize and every "
              "order of H_tilde, U, U-dagger is validated by TLC against Trace_LeastAction"),
        mode_a=mode_a, implicit_mode_stage=implicit_stage,
        primes=list(pl["primes"]),
        crashes_on_wellposed_input=stats["crashes"],
        crash_examples=crash_examples,
        generator_skips=stats["skipped"],
        negative_control=stats.get("control"),
        clauses=list(prefixes),
        exhaustive=False,
    )
    common.write_evidence(
        pid, tier, seed, coverage, time.time() - t0, len(new_violations),
        ["reduction mod p is a ring homomorphism on Z[i][1/2,1/gaps]; a false identity survives with probability ~1/p per entry",
         "float runs use dyadic instances on which IEEE arithmetic is exact; values with >40-bit denominators are snapped within 1e-9",
         "TLC/SANY 1.8.0, CommunityModules Json, sympy rational arithmetic for building inputs"],
    )
    return out_lines, len(new_violations)


def match_known(pid, v, kf):
    for f in kf.get("findings", []):
        if f.get("property") != pid:
            continue
        if f.get("matcher") == "crash" and v.get("kind") == "crash":
            return f["what"]
    return None
