"""Run the repository's test-suite with the guard OFF and compare with BASELINE.json.

usage: /venv/bin/python -m harness.baseline_check [-n WORKERS]
"""
import json
import os
import subprocess
import sys
import tempfile
import xml.etree.ElementTree as ET


def main():
    n = "8"
    if "-n" in sys.argv:
        n = sys.argv[sys.argv.index("-n") + 1]
    repo = "/repo"
    if "--repo" in sys.argv:
        repo = sys.argv[sys.argv.index("--repo") + 1]
    base = json.load(open("/root/.vp/BASELINE.json"))
    env = {k: v for k, v in os.environ.items() if k != "PYMABLOCK_VERIF"}
    with tempfile.TemporaryDirectory() as td:
        xml = os.path.join(td, "j.xml")
        cmd = ["/venv/bin/python", "-m", "pytest", "-ra", "-q", "-p", "no:cacheprovider", "--timeout=900",
               "--continue-on-collection-errors", "-o", "addopts=", f"--junitxml={xml}"]
        if n != "0":
            cmd += ["-n", n]
        subprocess.run(cmd, cwd=repo, env=env, capture_output=True, text=True)
        passed = set()
        for tc in ET.parse(xml).getroot().iter("testcase"):
            if not any(ch.tag in ("failure", "error", "skipped") for ch in tc):
                passed.add(f"{tc.get('classname')}::{tc.get('name')}")
    want = set(base["stable_pass"])
    missing = sorted(want - passed)
    print(f"baseline: {len(want)} expected, {len(want & passed)} pass, {len(missing)} missing, "
          f"{len(passed - want)} additionally passing")
    for m in missing[:20]:
        print("  MISSING", m)
    for m in sorted(passed - want)[:60]:
        print("  EXTRA", m)
    return 1 if missing else 0


if __name__ == "__main__":
    sys.exit(main())
