----------------------------- MODULE MultiOrder -----------------------------
(***************************************************************************)
(* Multi-indices (perturbative multi-orders): tuples of k naturals.        *)
(***************************************************************************)
EXTENDS Integers, Sequences, FiniteSets, SequencesExt

OZero(k) == [i \in 1..k |-> 0]
OLeq(m, n) == \A i \in 1..Len(n) : m[i] <= n[i]
OSub(n, m) == [i \in 1..Len(n) |-> n[i] - m[i]]
OAdd(n, m) == [i \in 1..Len(n) |-> n[i] + m[i]]

RECURSIVE OTotalTo(_, _)
OTotalTo(n, i) == IF i = 0 THEN 0 ELSE n[i] + OTotalTo(n, i - 1)
OTotal(n) == OTotalTo(n, Len(n))

OMaxC(n) == IF Len(n) = 0 THEN 0
            ELSE LET S == {n[i] : i \in 1..Len(n)} IN CHOOSE x \in S : \A y \in S : y <= x

\* all m <= n componentwise
OBox(n) == {m \in [1..Len(n) -> 0..OMaxC(n)] : OLeq(m, n)}

\* all multi-orders of k parameters with total order <= N
OrdersUpTo(k, N) == {m \in [1..k -> 0..N] : OTotal(m) <= N}

\* graded lexicographic strict order (total order first, then lexicographic)
RECURSIVE OLexLess(_, _, _)
OLexLess(a, b, i) == IF i > Len(a) THEN FALSE
                     ELSE IF a[i] # b[i] THEN a[i] < b[i] ELSE OLexLess(a, b, i + 1)
OLess(a, b) == IF OTotal(a) # OTotal(b) THEN OTotal(a) < OTotal(b) ELSE OLexLess(a, b, 1)

\* canonical evaluation sequence: every m <= n, m # n comes before n
OrderSeq(k, N) == SetToSortSeq(OrdersUpTo(k, N), OLess)
BoxSeq(n) == SetToSortSeq(OBox(n), OLess)
=============================================================================
