------------------------------- MODULE Trace_Dsl -----------------------------
(***************************************************************************)
(* C09 trace validation.  A session is one run of the REAL compiled engine *)
(* (series_computation over GF(P^2) elements, so no abstraction step at    *)
(* all): the program as parsed by the harness's own parser, the block      *)
(* structure / energies / selections handed to the scope functions, and    *)
(* the table of EVERY element of EVERY series and product (outputs,        *)
(* intermediates whose terms get deleted, products), each requested from   *)
(* the engine in a seeded random order.  One step per cell: the cell must  *)
(* satisfy its defining equation of Dsl.tla.  Sessions over numpy values   *)
(* (two inputs; one diagonal block optionally in LINEAR-OPERATOR mode, the *)
(* operators densified by the harness) are judged by the same equations.   *)
(***************************************************************************)
EXTENDS Dsl, Json, IOUtils

AllSessions == UNION {{S[i] : i \in 1..Len(S)} : S \in {JsonDeserialize(IOEnv.TRACE_FILE)}}

VARIABLES ses, l, fails
dvars == <<ses, l, fails>>

Ctx == [nb |-> ses.nb, sizes |-> ses.sizes, E |-> ses.E, keep |-> ses.keep, ords |-> ses.ords,
        splits |-> ses.splits, tab |-> ses.tab, prog |-> ses.prog, startmap |-> ses.startmap]
W == ses.work[l]

\* numeric sessions also log the SECOND return value of series_computation (every series wrapped
\* into linear operators, densified by the harness): it must denote the same element
LoOK == ses.haslo = 0 \/
        ValOf([Ctx EXCEPT !.tab = ses.lotab], W.name, W.i, W.j, W.pos) = ValOf(Ctx, W.name, W.i, W.j, W.pos)

CellOK == /\ CASE W.kind = "series"  -> SeriesCellOK(Ctx, ses.prog.series[W.q], W.i, W.j, W.pos)
               [] W.kind = "product" -> ProductCellOK(Ctx, ses.prog.products[W.q], W.i, W.j, W.pos)
               [] W.kind = "input"   -> TRUE          \* inputs are given: only their operator view is judged
          /\ LoOK

DInit == ses \in AllSessions /\ l = 1 /\ fails = {}
DStep == /\ l <= Len(ses.work)
         /\ fails' = IF CellOK THEN fails ELSE fails \cup {<<W.name, W.i, W.j, W.pos>>}
         /\ l' = l + 1 /\ ses' = ses
DDone == /\ l = Len(ses.work) + 1
         /\ \A f \in fails : PrintT(<<"FAIL", ses.sid, f[1], f[2], f[3], f[4]>>)
         /\ PrintT(<<"DONE", ses.sid, Cardinality(fails)>>)
         /\ l' = l + 1 /\ UNCHANGED <<ses, fails>>
DNext == DStep \/ DDone
=============================================================================
