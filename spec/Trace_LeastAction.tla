-------------------------- MODULE Trace_LeastAction -------------------------
(***************************************************************************)
(* Trace validation for the Hermitian problem.  Each session of the trace  *)
(* file records one run of the REAL block_diagonalize: the public          *)
(* arguments in abstract form (block structure, energies, fully_diagonalize*)
(* form), the GROUND-TRUTH Hamiltonian terms the harness built, and every  *)
(* element of H_tilde, U, U-dagger the code returned, all reduced to       *)
(* GF(P^2).  The specification's own SolveOrder action is taken once per   *)
(* multi-order; at each step every clause of C01..C03 is evaluated on the  *)
(* LOGGED values, and the logged values are compared with the reference.   *)
(* C04 (spectrum) is checked once all orders are consumed.                 *)
(* Verdicts are total: a failing clause is recorded and the run continues. *)
(***************************************************************************)
EXTENDS LeastAction, CharPoly, Json, IOUtils

\* the file is parsed ONCE: S is bound to the parsed value by enumerating a singleton
AllSessions == UNION {{S[i] : i \in 1..Len(S)} : S \in {JsonDeserialize(IOEnv.TRACE_FILE)}}

IdxOf(seq, x) == CHOOSE i \in 1..Len(seq) : seq[i] = x

ToSt(s) == [d |-> s.d, block |-> s.block, E |-> s.E, fdkind |-> s.fdkind,
            fdset |-> {s.fdset[i] : i \in 1..Len(s.fdset)},
            elim |-> TLCEval([b \in {s.block[i] : i \in 1..s.d} |-> s.elim[b + 1]])]
\* logged series become functions of the multi-order, like the reference
ToRaw(s) == LET os == OrderSeq(s.k, s.N)
                F(field) == TLCEval([n \in OrdersUpTo(s.k, s.N) |-> s.out[IdxOf(os, n)][field]])
            IN  [st |-> ToSt(s), k |-> s.k, N |-> s.N, sid |-> s.sid,
                 H  |-> TLCEval([n \in OrdersUpTo(s.k, s.N) |-> s.H[IdxOf(os, n)]]),
                 LU |-> F("U"), LUd |-> F("Ud"), LHt |-> F("Ht"),
                 spectrum |-> s.spectrum, ordsLogged |-> s.ords]
TraceRaw == {ToRaw(s) : s \in AllSessions}

VARIABLES fails, phase      \* phase: "solve" | "spectrum" | "done"
tvars == <<lavars, fails, phase>>

R == cfg.raw

FailedAt(n, rU, rUd, rHt) ==
  LET c   == cfg
      Us  == R.LU
      Uds == R.LUd
      Hts == R.LHt
      TT  == Transformed(c, Us, Uds, n)
  IN  {x \in {
        <<"C02.unitary_left",  ClUnitL(c, Us, Uds, n)>>,
        <<"C02.unitary_right", ClUnitR(c, Us, Uds, n)>>,
        <<"C01.kept_equals_Htilde", ClKept(c, TT, Hts, n)>>,
        <<"C01.eliminated_zero",    ClElim(c, TT, n)>>,
        <<"C01.Htilde_eliminated_part_zero", ClHtElimZero(c, Hts, n)>>,
        <<"C03.gauge",         ClGauge(c, Us, n)>>,
        <<"C02.adjoint_pair",  ClAdjPair(Us, Uds, n)>>,
        <<"C02.Htilde_hermitian", ClHtHerm(Hts, n)>>,
        <<"C03.U_equals_reference",  Us[n]  = rU>>,
        <<"C03.Ud_equals_reference", Uds[n] = rUd>>,
        <<"C03.Ht_equals_reference", Hts[n] = rHt>> } : ~x[2]}

TInit == /\ Init
         /\ fails = {}
         /\ phase = "solve"

TSolve == /\ phase = "solve"
          /\ pos < Len(cfg.ords)
          /\ SolveOrder
          /\ LET n == cfg.ords[pos + 1] IN
             fails' = fails \cup {<<x[1], pos + 1>> : x \in FailedAt(n, U'[n], Ud'[n], Ht'[n])}
          /\ phase' = phase

\* An isolated state (every element of its row and column is eliminated):
\* its diagonal H_tilde entry is an eigenvalue series of H(lambda).
Isolated(c) == {i \in 1..c.d : \A j \in 1..c.d : j # i => c.K[i][j] = 0 /\ c.K[j][i] = 0}

TSpectrum ==
  /\ phase = "solve" /\ pos = Len(cfg.ords)
  /\ LET c     == cfg
         chiH  == CharPolyOf(c.H, c.d, c.bx)
         chiT  == CharPolyOf(R.LHt, c.d, c.bx)
         bad   == IF R.spectrum = 0 THEN {} ELSE
                  (IF chiH = chiT THEN {} ELSE {<<"C04.charpoly", 0>>})
                  \cup {<<"C04.root_series", i>> : i \in
                         {i \in Isolated(c) : ~IsRootSeries(chiH, DiagSeries(R.LHt, i), c.bx)}}
     IN  fails' = fails \cup bad
  /\ phase' = "spectrum"
  /\ UNCHANGED lavars

TDone == /\ phase = "spectrum"
         /\ \A f \in fails : PrintT(<<"FAIL", R.sid, f[1], f[2]>>)
         /\ PrintT(<<"DONE", R.sid, Cardinality(fails)>>)
         /\ phase' = "done"
         /\ UNCHANGED <<lavars, fails>>

\* a session whose configuration the specification considers ill posed cannot
\* be solved by SolveOrder: report it (machinery problem or a C20 case).
TIllPosed == /\ phase = "solve" /\ pos = 0 /\ ~cfg.wp
             /\ PrintT(<<"ILLPOSED", R.sid>>)
             /\ phase' = "done"
             /\ UNCHANGED <<lavars, fails>>

TNext == TSolve \/ TSpectrum \/ TDone \/ TIllPosed
TSpec == TInit /\ [][TNext]_tvars

\* sanity of the trace itself (machinery, not the implementation)
TraceWellFormed ==
  /\ R.ordsLogged = cfg.ords
  /\ InputOK(cfg)
=============================================================================
