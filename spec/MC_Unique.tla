------------------------------ MODULE MC_Unique ------------------------------
(***************************************************************************)
(* C03: "... which together with C01 and C02 makes the result unique".     *)
(*                                                                         *)
(* At order n the defining equations of LeastAction.tla are affine in the  *)
(* unknown U_n (GF(P)-linearly: conjugation is not GF(P^2)-linear):        *)
(*    unitarity      U_n + U_n^dagger            = (known lower orders)    *)
(*    elimination    (H_0 U_n + U_n^dagger H_0)_R = (known lower orders)   *)
(*    gauge          (U_n - U_n^dagger)_S         = 0                      *)
(* and Ud_n, Ht_n are functions of U_n (ClAdjPair, ClKept, ClHtElimZero).  *)
(* MC_LeastAction shows that a solution exists (RefStep constructs it) for *)
(* every well-posed structure; two solutions differ by a solution X of the *)
(* HOMOGENEOUS system below.  This model enumerates, over the small field  *)
(* GF(3^2), EVERY block structure of StructSpace and EVERY candidate X     *)
(* (all d x d matrices for d = 2; all anti-Hermitian ones for d = 3, the   *)
(* first equation being then satisfied by construction) and checks         *)
(*                                                                         *)
(*    the structure is well posed  <=>  X = 0 is the only solution         *)
(*                                                                         *)
(* i.e. the equations pymablock promises to solve determine the answer     *)
(* exactly when block_diagonalize is obliged to accept the input (C20),    *)
(* and for every ill-posed structure the answer is NOT determined (so      *)
(* rejecting it is the only correct behaviour).  Comparing the real        *)
(* outputs with the reference (Trace_LeastAction) is therefore the same as *)
(* checking the clauses, at every order.                                   *)
(***************************************************************************)
EXTENDS StructSpace

VARIABLES st, done

F9 == {<<a, b>> : a \in 0..(P - 1), b \in 0..(P - 1)}
Imag == {<<0, b>> : b \in 0..(P - 1)}

AllMats(d) == [1..d -> [1..d -> F9]]
\* anti-Hermitian matrices, parametrised by the diagonal and the strict upper triangle
Upper(d) == {<<i, j>> \in (1..d) \X (1..d) : i < j}
AntiHerm(d) ==
  {TLCEval([i \in 1..d |-> TLCEval([j \in 1..d |->
      IF i = j THEN dg[i] ELSE IF i < j THEN up[<<i, j>>] ELSE FNeg(FConj(up[<<j, i>>]))])]) :
     dg \in [1..d -> Imag], up \in [Upper(d) -> F9]}

Candidates(d) == IF d <= 2 THEN AllMats(d) ELSE AntiHerm(d)

Homogeneous(s, K, X) ==
  LET Xd == MAdj(X) H0 == H0Of(s) IN
  /\ IsZeroM(MAdd(X, Xd))                                                   \* unitarity
  /\ IsZeroM(MHad(MCompl(K), MAdd(MMul(H0, X), MMul(Xd, H0))))              \* elimination
  /\ IsZeroM(MHad(K, MSub(X, Xd)))                                          \* gauge

Solutions(s) == LET K == KeepMask(s) IN {X \in Candidates(s.d) : Homogeneous(s, K, X)}
\* the same system WITHOUT the gauge equation (C01 + C02 only)
WithoutGauge(s) ==
  LET K == KeepMask(s) H0 == H0Of(s) IN
  {X \in Candidates(s.d) : /\ IsZeroM(MAdd(X, MAdj(X)))
                           /\ IsZeroM(MHad(MCompl(K), MAdd(MMul(H0, X), MMul(MAdj(X), H0))))}

\* Hermitian mode only accepts symmetric patterns (C20); StructSpace only contains those
Init == st \in Structs /\ done = FALSE
Next == done = FALSE /\ done' = TRUE /\ st' = st

\* (evaluated on the successor state only, so that the work is spread over TLC's workers)
InvSymmetric == done => MaskSymmetric(KeepMask(st))
InvUniqueIffWellPosed == done => (WellPosedHerm(st) <=> (Solutions(st) = {MZero(st.d, st.d)}))
\* the witness of non-uniqueness is exactly a rotation inside a degenerate eliminated pair
InvIllPosedWitness ==
  (done /\ ~WellPosedHerm(st)) =>
     \E X \in Solutions(st) : \E i, j \in 1..st.d :
        i # j /\ X[i][j] # FZ /\ st.E[i] = st.E[j] /\ ~Keep(st, i, j)
\* non-vacuity: the gauge equation is needed -- unitarity and elimination alone (C01, C02) never
\* determine the answer (a phase rotation X = i*1 is always a solution of the other two)
InvGaugeNeeded == done => Cardinality(WithoutGauge(st)) > 1
=============================================================================
