CONSTANT P = 46199
CONSTANT Insts <- MCInsts
CONSTANT MaxWord = 5
INIT PInit
NEXT PNext
CHECK_DEADLOCK FALSE
INVARIANT InvDenotation
INVARIANT InvLinksConsistent
INVARIANT InvIdempotent
