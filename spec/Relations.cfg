CONSTANT P = 46199
INIT RInit
NEXT RNext
CHECK_DEADLOCK FALSE
