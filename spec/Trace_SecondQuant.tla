--------------------------- MODULE Trace_SecondQuant --------------------------
(***************************************************************************)
(* C07: second-quantised block diagonalisation agrees with matrices on     *)
(* Fock states.                                                            *)
(*                                                                         *)
(* A session holds the input Hamiltonian as an r x r matrix of EXPRESSION  *)
(* TREES per perturbative order (what the user typed, not what the library *)
(* parsed), the modes, the block of every matrix row and the selection     *)
(* rule, and every element of H_tilde, U, U-dagger returned by the real    *)
(* block_diagonalize as NumberOrderedForm data (power tuples + coefficient *)
(* tables).  TLC                                                           *)
(*   1. gives the input its meaning on the truncated Fock space            *)
(*      (Fock!TreeApply), normalises the boson basis with the square roots *)
(*      sq[q]^2 = prod n_i! (checked) and obtains (r*D) x (r*D) matrices,  *)
(*   2. derives the kept pattern: an element between (i, s) and (j, t) is  *)
(*      kept iff i, j are in the same block and                            *)
(*        - the block is not selected for diagonalisation, or              *)
(*        - (tuple form) t = s and H_0[i] = H_0[j], or                     *)
(*        - (mask form) the power tuple t - s is not listed for (i, j),    *)
(*   3. runs the LeastAction reference solver on these matrices, one       *)
(*      SolveOrder step per order,                                         *)
(*   4. gives each returned operator its meaning (Fock!NofApply) and       *)
(*      requires equality with the reference on all interior Fock states   *)
(*      (order x bandwidth away from the truncation edge), vacuum and      *)
(*      other boundary occupations at the low edge included; a coefficient *)
(*      with a pole at an occupation an interior state reaches is a        *)
(*      failure.                                                           *)
(***************************************************************************)
EXTENDS LeastAction, Fock, Json, IOUtils

AllSessions == UNION {{S[i] : i \in 1..Len(S)} : S \in {JsonDeserialize(IOEnv.TRACE_FILE)}}

FCtx(s) == [modes |-> s.modes, states |-> s.states, strides |-> s.strides]
DD(s)   == Len(s.states)
Row(s, i, q) == (i - 1) * DD(s) + q
RowI(s, x)  == ((x - 1) \div DD(s)) + 1
RowQ(s, x)  == ((x - 1) % DD(s)) + 1
Dtot(s) == s.r * DD(s)
\* normalisation: M(q, t) = M'(q, t) * sq[q] / sq[t]
NormEl(s, v, q, t) == FMul(FMul(v, <<s.sq[q], 0>>), FInv(<<s.sq[t], 0>>))

\* big matrix of an r x r matrix of operators, each given by ColOf(i, j, t) = its action on |t)
BigMat(s, ColOf(_, _, _)) ==
  LET cols == TLCEval([j \in 1..s.r |-> TLCEval([i \in 1..s.r |-> TLCEval([t \in 1..DD(s) |-> ColOf(i, j, t)])])])
  IN TLCEval([x \in 1..Dtot(s) |-> TLCEval([y \in 1..Dtot(s) |->
       NormEl(s, cols[RowI(s, y)][RowI(s, x)][RowQ(s, y)][RowQ(s, x)], RowQ(s, x), RowQ(s, y))])])

TreeCol(s, n, i, j, t) == TreeApply(FCtx(s), s.H[n][i][j], UnitV(FCtx(s), t))
NofCol(s, rec, t) == NofApply(FCtx(s), rec, UnitV(FCtx(s), t))

Shift(s, q, t) == [m \in 1..Len(s.modes) |-> s.states[t][m] - s.states[q][m]]
KeepFock(s, x, y) ==
  LET i == RowI(s, x) j == RowI(s, y) q == RowQ(s, x) t == RowQ(s, y) b == s.block[i] IN
  IF b # s.block[j] THEN 0
  ELSE LET rule == s.rules[b + 1] IN
       IF rule.kind = "none" THEN 1
       ELSE IF rule.kind = "tuple" THEN (IF q = t /\ s.same0[i][j] = 1 THEN 1 ELSE 0)
       ELSE (IF \E w \in 1..Len(s.elim[i][j]) : s.elim[i][j][w] = Shift(s, q, t) THEN 0 ELSE 1)

ToRaw(s) ==
  LET os == OrderSeq(s.k, s.N)
      dt == Dtot(s)
      Hbig == TLCEval([n \in OrdersUpTo(s.k, s.N) |->
                 LET pp == CHOOSE p \in 1..Len(os) : os[p] = n IN
                 BigMat(s, LAMBDA i, j, t : TreeCol(s, pp, i, j, t))])
      K == TLCEval([x \in 1..dt |-> TLCEval([y \in 1..dt |-> KeepFock(s, x, y)])])
      H0 == Hbig[OZero(s.k)]
  IN [st |-> [d |-> dt, block |-> [x \in 1..dt |-> s.block[RowI(s, x)]],
              E |-> [x \in 1..dt |-> H0[x][x]], fdkind |-> "direct", keepm |-> K,
              fdset |-> {}, elim |-> <<>>],
      k |-> s.k, N |-> s.N, H |-> Hbig, ses |-> s]
TraceRaw == {ToRaw(s) : s \in AllSessions}

VARIABLES fails, phase
sqvars == <<lavars, fails, phase>>
S == cfg.raw.ses

InteriorRows(marg) == {x \in 1..Dtot(S) : RowQ(S, x) \in Interior(FCtx(S), marg)}

OutMat(pp, field) == BigMat(S, LAMBDA i, j, t : NofCol(S, S.out[pp][field][i][j], t))
PolesOK(pp, field, marg) ==
  \A i \in 1..S.r : \A j \in 1..S.r : \A t \in Interior(FCtx(S), marg) :
    LET rec == S.out[pp][field][i][j] IN
    \A kk \in 1..Len(rec.terms) :
      LET w == AnnihilateDesc(FCtx(S), rec.terms[kk].pw, 1, UnitV(FCtx(S), t)) IN
      \A q \in 1..DD(S) : rec.terms[kk].bad[q] = 1 => w[q] = FZ
EqualOnInterior(A, B, marg) ==
  \A x \in InteriorRows(marg) : \A y \in InteriorRows(marg) : A[x][y] = B[x][y]

FailedAt(pp, rU, rUd, rHt) ==
  LET marg == S.margin IN
  {c \in {
     <<"C07.Htilde_matrix_elements", EqualOnInterior(OutMat(pp, "Ht"), rHt, marg)>>,
     <<"C07.U_matrix_elements",      EqualOnInterior(OutMat(pp, "U"), rU, marg)>>,
     <<"C07.Udagger_matrix_elements", EqualOnInterior(OutMat(pp, "Ud"), rUd, marg)>>,
     <<"C07.pole_at_physical_occupation",
        PolesOK(pp, "Ht", marg) /\ PolesOK(pp, "U", marg) /\ PolesOK(pp, "Ud", marg)>> } : ~c[2]}

QInit == Init /\ fails = {} /\ phase = "solve"
QSolve == /\ phase = "solve" /\ pos < Len(cfg.ords)
          /\ SolveOrder
          /\ LET n == cfg.ords[pos + 1] IN
             fails' = fails \cup {<<c[1], pos + 1>> : c \in FailedAt(pos + 1, U'[n], Ud'[n], Ht'[n])}
          /\ phase' = phase
QDone == /\ phase = "solve" /\ pos = Len(cfg.ords)
         /\ \A f \in fails : PrintT(<<"FAIL", S.sid, f[1], f[2]>>)
         /\ PrintT(<<"DONE", S.sid, Cardinality(fails)>>)
         /\ phase' = "done" /\ UNCHANGED <<lavars, fails>>
QIllPosed == /\ phase = "solve" /\ pos = 0 /\ ~cfg.wp
             /\ PrintT(<<"ILLPOSED", S.sid>>)
             /\ phase' = "done" /\ UNCHANGED <<lavars, fails>>
QNext == QSolve \/ QDone \/ QIllPosed

\* the square roots handed over by the harness are square roots, and the input is Hermitian
SqOK == \A q \in 1..DD(S) : M(S.sq[q] * S.sq[q]) = GW(FCtx(S), S.states[q], Len(S.modes))
TraceWellFormed == SqOK /\ InputOK(cfg)
=============================================================================
