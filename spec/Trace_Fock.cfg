CONSTANT P = 46199
INIT FInit
NEXT FNext
CHECK_DEADLOCK FALSE
