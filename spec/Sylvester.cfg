CONSTANT P = 46199
INIT SInit
NEXT SNext
CHECK_DEADLOCK FALSE
