CONSTANT P = 46199
CONSTANT IsOutput <- TrTrue1
CONSTANT IsInput <- TrFalse1
CONSTANT IsDeletable <- TrTrue1
CONSTANT MayFetch <- TrTrue3
CONSTANT Complete <- TrTrue2
CONSTANT Used <- TrTrue2
CONSTANT TagOf <- TrTags
CONSTANT MaxFaults = 1000
CONSTANT MaxRequests = 100000
CONSTANT ExcClasses = {"Exception", "RuntimeError", "KeyboardInterrupt", "ValueError", "ZeroDivisionError"}
INIT CInit
NEXT CNext
CHECK_DEADLOCK FALSE
INVARIANT TypeOK
INVARIANT InvPendingIsStack
INVARIANT InvIdleClean
