------------------------------ MODULE Indexing ------------------------------
(***************************************************************************)
(* numpy-style index semantics for BlockSeries (series.py:123-206), for    *)
(* the fragment the property names: every component of an index tuple is   *)
(* an integer (negative allowed on finite dimensions), a list of integers, *)
(* or a forward slice (step >= 1); at most one list per expression (lists  *)
(* in several components broadcast against each other in numpy; that rule *)
(* is outside this transcription and such expressions are not generated).  *)
(*                                                                         *)
(* A component is a record                                                 *)
(*   [k |-> "int",   v |-> n]                                              *)
(*   [k |-> "list",  vs |-> <<n1, ..>>]                                    *)
(*   [k |-> "slice", lo, hi, st, lon, hin]   lon/hin = 1 when start/stop   *)
(*                                           is None                       *)
(* (all records carry all fields so that they can live in one set).        *)
(* fin is the sequence of finite dimension sizes, ninf the number of       *)
(* infinite (order) dimensions, which come last.                           *)
(*                                                                         *)
(* Verdict(fin, ninf, e) is                                                *)
(*   [ok |-> FALSE, err |-> "IndexError"]  for wrong arity, out-of-range   *)
(*        finite indices, open-ended slices on an order dimension, negative*)
(*        orders (integer, list element, slice start or stop);             *)
(*   [ok |-> TRUE, scalar, shape, cells]   otherwise: cells is the         *)
(*        row-major sequence of the source index tuples of the result,     *)
(*        scalar = TRUE when the expression selects a single element.      *)
(***************************************************************************)
EXTENDS Integers, Sequences, FiniteSets, TLC

Max(a, b) == IF a > b THEN a ELSE b
Min(a, b) == IF a < b THEN a ELSE b
RECURSIVE SeqMax(_)
SeqMax(s) == IF s = <<>> THEN 0 ELSE Max(Head(s), SeqMax(Tail(s)))

IntC(n)            == [k |-> "int", v |-> n, vs |-> <<>>, lo |-> 0, hi |-> 0, st |-> 1, lon |-> 0, hin |-> 0]
ListC(s)           == [k |-> "list", v |-> 0, vs |-> s, lo |-> 0, hi |-> 0, st |-> 1, lon |-> 0, hin |-> 0]
SliceC(lo, hi, st, lon, hin) ==
  [k |-> "slice", v |-> 0, vs |-> <<>>, lo |-> lo, hi |-> hi, st |-> st, lon |-> lon, hin |-> hin]

\* ---- validity on an order (infinite) dimension ---------------------------
OrderOK(c) ==
  CASE c.k = "int"   -> c.v >= 0
    [] c.k = "list"  -> \A i \in 1..Len(c.vs) : c.vs[i] >= 0
    [] c.k = "slice" -> c.hin = 0 /\ c.hi >= 0 /\ (c.lon = 1 \/ c.lo >= 0) /\ c.st >= 1
\* size of the order dimension that has to be materialised
TrialSize(c) ==
  CASE c.k = "int"   -> c.v + 1
    [] c.k = "list"  -> SeqMax(c.vs) + 1
    [] c.k = "slice" -> c.hi

\* ---- positions selected along one axis of size n -------------------------
Norm(v, n)   == IF v < 0 THEN v + n ELSE v
InRange(v, n) == v >= -n /\ v < n
FiniteOK(c, n) ==
  CASE c.k = "int"   -> InRange(c.v, n)
    [] c.k = "list"  -> \A i \in 1..Len(c.vs) : InRange(c.vs[i], n)
    [] c.k = "slice" -> c.st >= 1
\* Python slice.indices(n) for a positive step
SliceLo(c, n) == IF c.lon = 1 THEN 0 ELSE Max(0, Min(n, Norm(c.lo, n)))
SliceHi(c, n) == IF c.hin = 1 THEN n ELSE Max(0, Min(n, Norm(c.hi, n)))
SliceLen(c, n) == LET lo == SliceLo(c, n) hi == SliceHi(c, n)
                  IN IF hi <= lo THEN 0 ELSE (hi - lo + c.st - 1) \div c.st
Positions(c, n) ==
  CASE c.k = "int"   -> <<Norm(c.v, n)>>
    [] c.k = "list"  -> [i \in 1..Len(c.vs) |-> Norm(c.vs[i], n)]
    [] c.k = "slice" -> [i \in 1..SliceLen(c, n) |-> SliceLo(c, n) + (i - 1) * c.st]

\* ---- all multi-indices below `sizes`, row-major ---------------------------
RECURSIVE RowMajor(_)
RowMajor(sizes) ==
  IF sizes = <<>> THEN << <<>> >>
  ELSE LET rest == RowMajor(Tail(sizes)) IN
       [q \in 1..(Head(sizes) * Len(rest)) |->
          << (q - 1) \div Len(rest) >> \o rest[((q - 1) % Len(rest)) + 1]]

\* ---- the verdict -----------------------------------------------------------
Verdict(fin, ninf, e) ==
  LET nf    == Len(fin)
      nd    == nf + ninf
      arity == Len(e) = nd
      dims  == [a \in 1..nd |-> IF a <= nf THEN fin[a] ELSE TrialSize(e[a])]
      valid == /\ arity
               /\ \A a \in 1..nf : FiniteOK(e[a], fin[a])
               /\ \A a \in (nf + 1)..nd : OrderOK(e[a])
  IN
  IF ~valid THEN [ok |-> FALSE, err |-> "IndexError", scalar |-> FALSE, shape |-> <<>>, cells |-> <<>>]
  ELSE
  LET pos    == [a \in 1..nd |-> Positions(e[a], dims[a])]
      lists  == {a \in 1..nd : e[a].k = "list"}
      hasL   == lists # {}
      adv    == IF hasL THEN {a \in 1..nd : e[a].k \in {"int", "list"}} ELSE {}
      advlo  == IF adv = {} THEN 0 ELSE CHOOSE a \in adv : \A b \in adv : a <= b
      advhi  == IF adv = {} THEN 0 ELSE CHOOSE a \in adv : \A b \in adv : b <= a
      adjacent == \A a \in advlo..advhi : a \in adv
      theL   == IF hasL THEN CHOOSE a \in lists : TRUE ELSE 0
      slices == SelectSeq([a \in 1..nd |-> a], LAMBDA a : e[a].k = "slice")
      \* result axes: a sequence of source axes; the list axis stands for the
      \* whole group of advanced indices
      before == SelectSeq(slices, LAMBDA a : a < advlo)
      after  == SelectSeq(slices, LAMBDA a : a > advlo)
      axes   == IF ~hasL THEN slices
                ELSE IF adjacent THEN before \o <<theL>> \o after
                ELSE <<theL>> \o slices
      shape  == [r \in 1..Len(axes) |-> Len(pos[axes[r]])]
      rm     == RowMajor(shape)
      src(t) == [a \in 1..nd |->
                   IF e[a].k = "int" THEN pos[a][1]
                   ELSE LET r == CHOOSE r \in 1..Len(axes) : axes[r] = a IN pos[a][t[r] + 1]]
  IN [ok |-> TRUE, err |-> "", scalar |-> (\A a \in 1..nd : e[a].k = "int"),
      shape |-> shape, cells |-> [q \in 1..Len(rm) |-> src(rm[q])]]

\* the set of cells an expression needs
Covered(fin, ninf, e) == LET v == Verdict(fin, ninf, e) IN {v.cells[q] : q \in 1..Len(v.cells)}

\* ---- a second, axis-by-axis formulation (used to cross-check the first) ----
\* for expressions without a list, selecting along the axes one after the
\* other must give the same elements: membership of a source tuple
SelectedAxiswise(fin, ninf, e, idx) ==
  LET nf == Len(fin) nd == nf + ninf
      dims == [a \in 1..nd |-> IF a <= nf THEN fin[a] ELSE TrialSize(e[a])]
  IN \A a \in 1..nd : \E q \in 1..Len(Positions(e[a], dims[a])) : Positions(e[a], dims[a])[q] = idx[a]
=============================================================================
