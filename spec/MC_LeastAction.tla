--------------------------- MODULE MC_LeastAction ---------------------------
(***************************************************************************)
(* Mode A: exhaustive model checking of the reference itself.  TLC         *)
(* enumerates EVERY configuration within the bounds -- all block           *)
(* compositions of d, all assignments of MaxLevel+1 energy levels to the   *)
(* states (hence all degeneracy patterns), every form of fully_diagonalize *)
(* (absent, every non-empty subset of blocks, every symmetric elimination  *)
(* mask on every non-empty subset of blocks), 1..MaxK parameters -- keeps  *)
(* the well-posed ones, fills in pseudo-random Hermitian terms at every    *)
(* multi-order, runs SolveOrder and checks that each order satisfies every *)
(* defining equation.  This shows the specification is consistent (the     *)
(* equations have the solution the reference constructs) on the whole      *)
(* configuration space, including masks the repository's tests never use.  *)
(***************************************************************************)
EXTENDS LeastAction

CONSTANTS Dims, MaxLevel, MaxK, MaxN, Seed

Hash(a, b, c, e) == M(M(M(a * 7919 + b * 104) * 31 + M(c * 977 + e * 13)) * 2521 + M(Seed * 7717 + 4242))

\* pseudo-random Hermitian d x d matrix number t
HermVal(d, t) == TLCEval([i \in 1..d |-> TLCEval([j \in 1..d |->
    IF i = j THEN <<Hash(t, i, j, 1), 0>>
    ELSE IF i < j THEN <<Hash(t, i, j, 2), Hash(t, i, j, 3)>>
    ELSE FConj(<<Hash(t, j, i, 2), Hash(t, j, i, 3)>>)])])

BlockSeqs(d) == {b \in [1..d -> 0..(d - 1)] :
                   /\ b[1] = 0
                   /\ \A i \in 1..(d - 1) : b[i + 1] \in {b[i], b[i] + 1}}
Energies(d)  == [1..d -> {<<l, 0>> : l \in 0..MaxLevel}]
BlocksOf(b, d) == {b[i] : i \in 1..d}
SizeOf(b, d, x) == Cardinality({i \in 1..d : b[i] = x})

\* all symmetric 0/1 matrices of size s with zero diagonal
SymMasks(s) == {m \in [1..s -> [1..s -> {0, 1}]] :
                  \A i \in 1..s : m[i][i] = 0 /\ \A j \in 1..s : m[i][j] = m[j][i]}

FdForms(b, d) ==
  LET bl == BlocksOf(b, d) IN
  {[fdkind |-> "none", fdset |-> {}, elim |-> [x \in bl |-> <<>>]]}
  \cup {[fdkind |-> "tuple", fdset |-> s, elim |-> [x \in bl |-> <<>>]] : s \in (SUBSET bl) \ {{}}}
  \cup UNION {
        {[fdkind |-> "dict", fdset |-> s, elim |-> e] :
           e \in {f \in [bl -> UNION {SymMasks(SizeOf(b, d, x)) : x \in bl} \cup {<<>>}] :
                    \A x \in bl : IF x \in s THEN f[x] \in SymMasks(SizeOf(b, d, x)) ELSE f[x] = <<>>}}
        : s \in (SUBSET bl) \ {{}}}

Structs == UNION { UNION {
  {[d |-> d, block |-> b, E |-> e, fdkind |-> f.fdkind, fdset |-> f.fdset, elim |-> f.elim] :
     e \in Energies(d), f \in FdForms(b, d)} : b \in BlockSeqs(d)} : d \in Dims}

MkRaw(st, k) ==
  LET os == OrderSeq(k, MaxN) IN
  [st |-> st, k |-> k, N |-> MaxN,
   H |-> TLCEval([n \in OrdersUpTo(k, MaxN) |->
           IF OTotal(n) = 0 THEN H0Of(st)
           ELSE HermVal(st.d, CHOOSE t \in 1..Len(os) : os[t] = n)])]

MCRaw == {MkRaw(st, k) : st \in {s \in Structs : WellPosedHerm(s)}, k \in 1..MaxK}

\* every configuration the space contains is either well posed or has a
\* degenerate eliminated pair / asymmetric pattern: the predicate is total.
NumStructs     == Cardinality(Structs)
NumWellPosed   == Cardinality({s \in Structs : WellPosedHerm(s)})

InvInputOK == InputOK(cfg)
=============================================================================
