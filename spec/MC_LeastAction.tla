--------------------------- MODULE MC_LeastAction ---------------------------
(***************************************************************************)
(* Mode A: exhaustive model checking of the reference itself.  TLC         *)
(* enumerates EVERY configuration within the bounds -- all block           *)
(* compositions of d, all assignments of MaxLevel+1 energy levels to the   *)
(* states (hence all degeneracy patterns), every form of fully_diagonalize *)
(* (absent, every non-empty subset of blocks, every symmetric elimination  *)
(* mask on every non-empty subset of blocks), 1..MaxK parameters -- keeps  *)
(* the well-posed ones, fills in pseudo-random Hermitian terms at every    *)
(* multi-order, runs SolveOrder and checks that each order satisfies every *)
(* defining equation.  This shows the specification is consistent (the     *)
(* equations have the solution the reference constructs) on the whole      *)
(* configuration space, including masks the repository's tests never use.  *)
(***************************************************************************)
EXTENDS LeastAction, StructSpace

CONSTANTS MaxK, MaxN, Seed

Hash(a, b, c, e) == M(M(M(a * 7919 + b * 104) * 31 + M(c * 977 + e * 13)) * 2521 + M(Seed * 7717 + 4242))

\* pseudo-random Hermitian d x d matrix number t
HermVal(d, t) == TLCEval([i \in 1..d |-> TLCEval([j \in 1..d |->
    IF i = j THEN <<Hash(t, i, j, 1), 0>>
    ELSE IF i < j THEN <<Hash(t, i, j, 2), Hash(t, i, j, 3)>>
    ELSE FConj(<<Hash(t, j, i, 2), Hash(t, j, i, 3)>>)])])

MkRaw(st, k) ==
  LET os == OrderSeq(k, MaxN) IN
  [st |-> st, k |-> k, N |-> MaxN,
   H |-> TLCEval([n \in OrdersUpTo(k, MaxN) |->
           IF OTotal(n) = 0 THEN H0Of(st)
           ELSE HermVal(st.d, CHOOSE t \in 1..Len(os) : os[t] = n)])]

MCRaw == {MkRaw(st, k) : st \in {s \in Structs : WellPosedHerm(s)}, k \in 1..MaxK}

\* every configuration the space contains is either well posed or has a
\* degenerate eliminated pair / asymmetric pattern: the predicate is total.
NumStructs     == Cardinality(Structs)
NumWellPosed   == Cardinality({s \in Structs : WellPosedHerm(s)})

InvInputOK == InputOK(cfg)
=============================================================================
