CONSTANT P = 46199
CONSTANT RawCfgs <- TraceRaw
INIT QInit
NEXT QNext
CHECK_DEADLOCK FALSE
INVARIANT TraceWellFormed
