----------------------------- MODULE MC_Projector ----------------------------
(* Mode A: all words of length <= MaxWord over {T, H, C}, Hermitian (L = R,  *)
(* orthonormal complex R) and biorthogonal (L # R, L^dagger R = 1) starts.   *)
EXTENDS Projector
\* d = 3, r = 1 over GF(P^2):  R = (1, i, 0)/1 ... use exact field elements
\* biorthogonal pair: R = (1, 2+i, 0)^T , L = (1, 0, 0)^T  =>  L^dagger R = 1
RBi == << <<FOne>>, << <<2, 1>> >>, <<FZ>> >>
LBi == << <<FOne>>, <<FZ>>, <<FZ>> >>
\* Hermitian: R = (3/5, 4i/5, 0)^T has R^dagger R = 1
Inv5 == InvP(5)
RHe == << << <<M(3 * Inv5), 0>> >>, << <<0, M(4 * Inv5)>> >>, <<FZ>> >>
MCInsts == {[R |-> RBi, L |-> LBi, herm |-> FALSE], [R |-> RHe, L |-> RHe, herm |-> TRUE]}
=============================================================================
