CONSTANT N = 2
CONSTANT IsOutput <- MCIsOutput
CONSTANT IsInput <- MCIsInput
CONSTANT IsDeletable <- MCIsDeletable
CONSTANT MayFetch <- MCMayFetch
CONSTANT Complete <- MCComplete
CONSTANT Used <- MCUsed
CONSTANT TagOf <- MCTags
CONSTANT MaxFaults = 1
CONSTANT MaxRequests = 1
CONSTANT ExcClasses = {"Exception", "RuntimeError", "KeyboardInterrupt"}
SPECIFICATION EFair
CHECK_DEADLOCK FALSE
INVARIANT TypeOK
INVARIANT InvPendingIsStack
INVARIANT InvIdleClean
INVARIANT InvOnceWhileCached
INVARIANT InvInputsOnce
INVARIANT InvNoSpuriousRecursion
INVARIANT InvExcClass
INVARIANT InvReturnedDone
INVARIANT InvCausal
PROPERTY EveryRequestReturns
