----------------------------- MODULE StructSpace -----------------------------
(***************************************************************************)
(* The space of block structures that the exhaustive models enumerate: all *)
(* block compositions of d, all assignments of MaxLevel+1 energy levels to *)
(* the states (hence all degeneracy patterns), every form of               *)
(* fully_diagonalize (absent, every non-empty subset of blocks, every      *)
(* symmetric elimination mask on every non-empty subset of blocks).        *)
(***************************************************************************)
EXTENDS BlockStruct

CONSTANTS Dims, MaxLevel

BlockSeqs(d) == {b \in [1..d -> 0..(d - 1)] :
                   /\ b[1] = 0
                   /\ \A i \in 1..(d - 1) : b[i + 1] \in {b[i], b[i] + 1}}
Energies(d)  == [1..d -> {<<l, 0>> : l \in 0..MaxLevel}]
BlocksOf(b, d) == {b[i] : i \in 1..d}
SizeOf(b, d, x) == Cardinality({i \in 1..d : b[i] = x})

\* all symmetric 0/1 matrices of size s with zero diagonal
SymMasks(s) == {m \in [1..s -> [1..s -> {0, 1}]] :
                  \A i \in 1..s : m[i][i] = 0 /\ \A j \in 1..s : m[i][j] = m[j][i]}

FdForms(b, d) ==
  LET bl == BlocksOf(b, d) IN
  {[fdkind |-> "none", fdset |-> {}, elim |-> [x \in bl |-> <<>>]]}
  \cup {[fdkind |-> "tuple", fdset |-> s, elim |-> [x \in bl |-> <<>>]] : s \in (SUBSET bl) \ {{}}}
  \cup UNION {
        {[fdkind |-> "dict", fdset |-> s, elim |-> e] :
           e \in {f \in [bl -> UNION {SymMasks(SizeOf(b, d, x)) : x \in bl} \cup {<<>>}] :
                    \A x \in bl : IF x \in s THEN f[x] \in SymMasks(SizeOf(b, d, x)) ELSE f[x] = <<>>}}
        : s \in (SUBSET bl) \ {{}}}

Structs == UNION { UNION {
  {[d |-> d, block |-> b, E |-> e, fdkind |-> f.fdkind, fdset |-> f.fdset, elim |-> f.elim] :
     e \in Energies(d), f \in FdForms(b, d)} : b \in BlockSeqs(d)} : d \in Dims}
=============================================================================
