---------------------------- MODULE Trace_Indexing ---------------------------
(***************************************************************************)
(* C19: trace validation of BlockSeries indexing.  A session drives ONE    *)
(* real BlockSeries (finite shape fin, ninf order dimensions, a logging    *)
(* eval whose values identify their own index, some cells `zero`) through  *)
(* a sequence of index expressions.  Events:                               *)
(*   reqx   the abstract expression; TLC computes what it covers with      *)
(*          Indexing!Verdict and takes Engine!UserRequest on those cells   *)
(*   begin / end / detect / fail   from the tracer, as in Trace_Engine     *)
(*   retx   the observed result (scalar?, shape, elements, mask); must be  *)
(*          what Verdict says                                              *)
(*   refuse the observed exception for an invalid expression; Verdict must *)
(*          say invalid, the class must be IndexError, nothing evaluated   *)
(*   view / probe   a finite-only index returned a view; its shape and the *)
(*          elements seen through it must be those of the original         *)
(* Exactly-once evaluation is Engine!Begin's guard (the cell must be       *)
(* absent); RuntimeError for self-reference is Engine!PendingHit.          *)
(***************************************************************************)
EXTENDS Trace_Engine, Indexing

XCell(idx) == <<ses.label, idx, SubSeq(idx, Len(ses.fin) + 1, Len(idx))>>
XV         == Verdict(ses.fin, ses.ninf, Ev.expr)
XCovered(v) == {XCell(v.cells[q]) : q \in 1..Len(v.cells)}
IsZeroCell(idx) == idx \in SeqSet(ses.zeros)

ReqGoal == CellsGoal(XCovered(XV))
TReqX == More /\ Ev.t = "reqx" /\ XV.ok /\ UserRequest(ReqGoal) /\ Adv
\* an invalid expression must not make the engine do anything: the next
\* event has to be its refusal
TReqXInvalid == More /\ Ev.t = "reqx" /\ ~XV.ok /\ mode = "idle" /\ UNCHANGED evars /\ Adv

\* the observed result is what numpy gives on the dense array of element values
ElemOK(v, e, q) == (IsZeroCell(v.cells[q]) /\ e.elems[q].masked = 1)
                   \/ (~IsZeroCell(v.cells[q]) /\ e.elems[q].masked = 0 /\ e.elems[q].idx = v.cells[q])
ResultOK(v, e) ==
  /\ e.scalar = (IF v.scalar THEN 1 ELSE 0)
  /\ (v.scalar \/ e.shape = v.shape)
  /\ Len(e.elems) = Len(v.cells)
  /\ \A q \in 1..Len(v.cells) : ElemOK(v, e, q)
RetOK == XV.ok /\ ResultOK(XV, Ev)

TRetX == More /\ Ev.t = "retx" /\ Ev.pending \in {0, -1} /\ Return /\ RetOK /\ Adv

TRefuse == More /\ Ev.t = "refuse" /\ ~XV.ok /\ Ev.exc = XV.err /\ Ev.pending \in {0, -1}
           /\ Refuse(Ev.exc) /\ Adv

\* a finite-only index gives a view; shape as numpy says, same elements
VF == Verdict(ses.fin, 0, Ev.expr)
ViewOK == VF.ok /\ Ev.shape = VF.shape
TView == More /\ Ev.t = "view" /\ mode = "idle" /\ ViewOK /\ UNCHANGED evars /\ Adv
\* an element seen through the view (view index r, order n) is the element
\* of the original the finite index maps r to
ProbeSrc == VF.cells[CHOOSE q \in 1..Len(VF.cells) : RowMajor(VF.shape)[q] = Ev.r] \o Ev.n
ProbeOK == (IsZeroCell(ProbeSrc) /\ Ev.masked = 1)
           \/ (~IsZeroCell(ProbeSrc) /\ Ev.masked = 0 /\ Ev.idx = ProbeSrc)
TProbe == More /\ Ev.t = "probe" /\ mode = "idle" /\ ProbeOK /\ UNCHANGED evars /\ Adv

\* a finite-only index that numpy refuses (an integer out of range): the library may refuse when the view is
\* made or when an element is read through it, with numpy's exception class; it never hands out an element
\* (an event "viewvalue" -- an element was obtained through such a view -- is consumed by no action)
TViewRefuse == More /\ Ev.t = "viewrefuse" /\ mode = "idle" /\ ~VF.ok /\ Ev.exc = VF.err /\ UNCHANGED evars /\ Adv

XConsume == TConsume \/ TReqX \/ TReqXInvalid \/ TRetX \/ TRefuse \/ TView \/ TProbe \/ TViewRefuse

XDiagnose ==
  LET t == Ev.t IN
  CASE t = "reqx"   -> IF ~XV.ok THEN "C19.invalid_expression_was_evaluated" ELSE "request_while_busy"
    [] t = "retx"   -> IF ~XV.ok THEN "C19.invalid_expression_returned_a_value"
                       ELSE IF Ev.pending \notin {0, -1} THEN "C11.inflight_marker_left_behind"
                       ELSE IF ~(mode = "running" /\ stack = <<>> /\ GoalDone(goal))
                            THEN "C19.result_before_all_cells_evaluated"
                       ELSE "C19.result_differs_from_numpy_semantics"
    [] t = "refuse" -> IF XV.ok THEN "C19.valid_expression_refused"
                       ELSE IF Ev.exc # XV.err THEN "C19.wrong_exception_class"
                       ELSE "refuse_not_allowed"
    [] t = "viewrefuse" -> IF VF.ok THEN "C19.valid_view_refused" ELSE "C19.wrong_exception_class"
    [] t = "viewvalue"  -> "C19.invalid_view_returned_an_element"
    [] t = "view"   -> IF ~VF.ok THEN "C19.invalid_view_returned_an_element" ELSE "C19.view_shape"
    [] t = "probe"  -> "C19.view_element"
    [] OTHER        -> Diagnose

XReject == /\ More /\ verdict = "running" /\ ~ENABLED XConsume
           /\ PrintT(<<"REJECT", ses.sid, l, Ev.t, XDiagnose>>)
           /\ verdict' = "rejected"
           /\ UNCHANGED <<evars, ses, l>>

XNext == (verdict = "running" /\ XConsume) \/ XReject \/ TAccept
XSpec == TInit /\ [][XNext]_tvars
=============================================================================
