------------------------------ MODULE CauchyDef ------------------------------
(***************************************************************************)
(* The DEFINITION of the multivariate Cauchy product of a chain of block   *)
(* series (C18): element (i, j, n) is the sum over intermediate blocks and *)
(* over all splittings of n of the products of the factors' elements; the  *)
(* sentinel `zero` is an absent term, `one` the identity.                  *)
(* A factor is a record [nr, nc, rows, cols, cell]: cell[CellIdx] is       *)
(* [tag, v]; pos is the position of the multi-order in `ords`.             *)
(***************************************************************************)
EXTENDS Mat, MultiOrder, TLC

CellIdx(f, i, k, pos, no) == ((i * f.nc) + k) * no + pos   \* 0-based i,k ; 1-based pos
FacCell(f, i, k, pos, no) == f.cell[CellIdx(f, i, k, pos, no)]
AsMat(c, r, q) == IF c.tag = "zero" THEN MZero(r, q)
                  ELSE IF c.tag = "one" THEN MId(r) ELSE c.v

\* value table of the product of the first a factors of chain, as a function
\* <<i, j, pos>> -> matrix ; ords is the canonical order sequence, bx[pos] the
\* sequence of <<p1, p2>> position pairs with ords[p1] + ords[p2] = ords[pos]
RECURSIVE ChainDef(_, _, _, _)
ChainDef(chain, a, no, splits) ==
  LET f == chain[a] IN
  IF a = 1 THEN
    TLCEval([x \in {<<i, k, pos>> : i \in 0..(f.nr - 1), k \in 0..(f.nc - 1), pos \in 1..no} |->
       AsMat(FacCell(f, x[1], x[2], x[3], no), f.rows[x[1] + 1], f.cols[x[2] + 1])])
  ELSE
    LET prev == ChainDef(chain, a - 1, no, splits)
        nr   == chain[1].nr
        rws  == chain[1].rows
        term(i, j, pos, k, s) ==
          MMul(prev[<<i, k, splits[pos][s][1]>>],
               AsMat(FacCell(f, k, j, splits[pos][s][2], no), f.rows[k + 1], f.cols[j + 1]))
        RECURSIVE SumS(_, _, _, _, _)
        SumS(i, j, pos, k, s) ==
          IF s = 0 THEN MZero(rws[i + 1], f.cols[j + 1])
          ELSE MAdd(term(i, j, pos, k, s), SumS(i, j, pos, k, s - 1))
        RECURSIVE SumK(_, _, _, _)
        SumK(i, j, pos, k) ==
          IF k < 0 THEN MZero(rws[i + 1], f.cols[j + 1])
          ELSE MAdd(SumS(i, j, pos, k, Len(splits[pos])), SumK(i, j, pos, k - 1))
    IN TLCEval([x \in {<<i, j, pos>> : i \in 0..(nr - 1), j \in 0..(f.nc - 1), pos \in 1..no} |->
         SumK(x[1], x[2], x[3], f.nr - 1)])

\* position pairs <<p1, p2>> with ords[p1] + ords[p2] = ords[pos]
Splits(ords) ==
  TLCEval([pos \in 1..Len(ords) |->
     SetToSeq({<<p1, p2>> \in (1..Len(ords)) \X (1..Len(ords)) : OAdd(ords[p1], ords[p2]) = ords[pos]})])

=============================================================================
