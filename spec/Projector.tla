------------------------------ MODULE Projector ------------------------------
(***************************************************************************)
(* ComplementProjector (linalg.py:164-230): P = 1 - R L^dagger as a scipy  *)
(* LinearOperator, with lazily created and cached transpose / adjoint /    *)
(* conjugate companions.                                                   *)
(*                                                                         *)
(* The three operations generate the Klein four-group acting on P:         *)
(*    "T" transpose, "C" conjugate, "H" = T.C adjoint.                     *)
(* An abstract operator object is what the code constructs: a pair         *)
(* <<vecs, left>> of names from {"R","L","cR","cL"} (c = conjugated),      *)
(* denoting  1 - vecs . left^dagger.  The state is the object graph: which *)
(* objects exist and which cached links (_adjoint_operator,                *)
(* _conjugate_operator, _transpose_operator) they hold.                    *)
(* Actions: Apply(op) follows/creates the link of the current object.      *)
(* Invariants: links are involutive and every object denotes the group     *)
(* element the word of operations says (checked on concrete matrices over  *)
(* GF(P^2)).                                                               *)
(***************************************************************************)
EXTENDS Mat, TLC

CONSTANTS Insts,         \* set of instances [R, L, herm]: d x r matrices over GF(P^2) (right and
                         \* left vectors), herm = TRUE iff the object was built with left = right
          MaxWord

VARIABLES inst,          \* the instance this behaviour is about
          objs,          \* set of existing objects (pairs of names)
          links,         \* links[o][op] \in objs \cup {None}
          cur,           \* the object the user currently holds
          den,           \* group element the user's word denotes: <<t, c>> in {0,1}^2
          word           \* the word of operations so far

pvars == <<inst, objs, links, cur, den, word>>
Rm == inst.R
Lm == inst.L
Herm == inst.herm
Ops == {"T", "H", "C"}
None == <<"none", "none">>

ConjName(n) == CASE n = "R" -> "cR" [] n = "L" -> "cL" [] n = "cR" -> "R" [] n = "cL" -> "L"
MatOf(n) == CASE n = "R" -> Rm [] n = "L" -> Lm [] n = "cR" -> MConj(Rm) [] n = "cL" -> MConj(Lm)
D == Len(Rm)
\* the dense matrix an object denotes: 1 - vecs . left^dagger
Dense(o) == MSub(MId(D), MMul(MatOf(o[1]), MAdj(MatOf(o[2]))))
\* the group element applied to P0 = 1 - R L^dagger
P0 == MSub(MId(D), MMul(Rm, MAdj(Lm)))
Act(g, A) == LET a1 == IF g[1] = 1 THEN MTr(A) ELSE A IN IF g[2] = 1 THEN MConj(a1) ELSE a1
GMul(g, op) == CASE op = "T" -> <<1 - g[1], g[2]>>
                 [] op = "C" -> <<g[1], 1 - g[2]>>
                 [] op = "H" -> <<1 - g[1], 1 - g[2]>>

\* what the code constructs for each operation (linalg.py:200-230)
Start == IF Herm THEN <<"R", "R">> ELSE <<"R", "L">>
AdjOf(o)  == <<o[2], o[1]>>
ConjOf(o) == <<ConjName(o[1]), ConjName(o[2])>>
NoLinks == [op \in Ops |-> None]

PInit ==
  /\ inst \in Insts
  /\ objs = {Start}
  /\ links = (Start :> [NoLinks EXCEPT !["H"] = IF Herm THEN Start ELSE None])
  /\ cur = Start /\ den = <<0, 0>> /\ word = <<>>

Link(l, a, op, b) == [l EXCEPT ![a][op] = b]
Ensure(l, o) == IF o \in DOMAIN l THEN l
                ELSE (o :> [NoLinks EXCEPT !["H"] = IF Herm THEN o ELSE None]) @@ l

\* _adjoint (linalg.py:200-207)
DoAdjoint(l, o) ==
  IF l[o]["H"] # None THEN [l |-> l, r |-> l[o]["H"]]
  ELSE LET n == AdjOf(o) l1 == Ensure(l, n) IN
       [l |-> Link(Link(l1, o, "H", n), n, "H", o), r |-> n]
\* conjugate (linalg.py:209-222)
DoConj(l, o) ==
  IF l[o]["C"] # None THEN [l |-> l, r |-> l[o]["C"]]
  ELSE LET n  == ConjOf(o)
           l1 == Ensure(l, n)
           l2 == Link(Link(l1, o, "C", n), n, "C", o)
       IN [l |-> IF Herm THEN Link(Link(l2, o, "T", n), n, "T", o) ELSE l2, r |-> n]
\* _transpose (linalg.py:224-230)
DoTranspose(l, o) ==
  IF l[o]["T"] # None THEN [l |-> l, r |-> l[o]["T"]]
  ELSE LET c == DoConj(l, o)
           t == IF Herm THEN c ELSE DoAdjoint(c.l, c.r)
       IN [l |-> Link(Link(t.l, o, "T", t.r), t.r, "T", o), r |-> t.r]

Apply(op) ==
  /\ Len(word) < MaxWord
  /\ LET res == CASE op = "T" -> DoTranspose(links, cur)
                  [] op = "H" -> DoAdjoint(links, cur)
                  [] op = "C" -> DoConj(links, cur)
     IN /\ links' = res.l
        /\ objs' = DOMAIN res.l
        /\ cur' = res.r
  /\ den' = GMul(den, op)
  /\ word' = Append(word, op)
  /\ inst' = inst

PNext == \E op \in Ops : Apply(op)
PSpec == PInit /\ [][PNext]_pvars

\* the object the user holds denotes what the word says
InvDenotation == Dense(cur) = Act(den, P0)
\* cached links are involutive and denote the right thing
InvLinksConsistent ==
  \A o \in objs : \A op \in Ops :
    links[o][op] # None =>
      /\ links[o][op] \in objs
      /\ links[links[o][op]][op] = o
      /\ Dense(links[o][op]) = Act(GMul(<<0, 0>>, op), Dense(o))
\* idempotent when L^dagger R = 1
InvIdempotent == (MMul(MAdj(Lm), Rm) = MId(Len(Rm[1]))) => MMul(Dense(cur), Dense(cur)) = Dense(cur)
=============================================================================
