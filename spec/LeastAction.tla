----------------------------- MODULE LeastAction ----------------------------
(***************************************************************************)
(* The Hermitian problem pymablock promises to solve, as mathematics.      *)
(*                                                                         *)
(* Given H(lambda) = sum_n lambda^n H_n  (H_0 = diag(E), block structure   *)
(* and kept/eliminated pattern from BlockStruct), find series U, Ud, Ht    *)
(* with                                                                    *)
(*    Ud U = U Ud = 1            (unitarity, Cauchy products)              *)
(*    (Ud H U)_R = 0,  (Ud H U)_S = Ht    (elimination)                    *)
(*    ((U - Ud))_S = 0           (least-action gauge: the anti-Hermitian   *)
(*                                part of U has no kept element)           *)
(*                                                                         *)
(* SolveOrder is an UNOPTIMISED order-by-order solution: dense d x d       *)
(* matrices, no blocks, explicit products with H_0, one order per step.    *)
(* It shares no structure with pymablock's `main` algorithm.               *)
(*                                                                         *)
(* A raw configuration record has  st (BlockStruct structure), k (number   *)
(* of parameters), N (maximal total order), H (function on                 *)
(* OrdersUpTo(k,N)).  Prepare adds the derived fields K (kept pattern,     *)
(* derived from the PUBLIC arguments in st), ords (canonical evaluation    *)
(* sequence) and bx (order -> sequence of all smaller-or-equal orders);    *)
(* they are stored in the state because TLC operators are call-by-name.    *)
(***************************************************************************)
EXTENDS PowerSeries, BlockStruct, TLC

CONSTANT RawCfgs         \* set of raw configuration records

VARIABLES cfg,           \* the (prepared) configuration this behaviour is about
          pos,           \* number of orders already solved
          U, Ud, Ht      \* the solution so far: functions solved order -> matrix

lavars == <<cfg, pos, U, Ud, Ht>>

Prepare(raw) ==
  LET os == OrderSeq(raw.k, raw.N) IN
  [raw |-> raw, st |-> raw.st, k |-> raw.k, N |-> raw.N, H |-> raw.H, d |-> raw.st.d,
   K    |-> KeepMask(raw.st),
   ords |-> os,
   bx   |-> TLCEval([n \in OrdersUpTo(raw.k, raw.N) |-> BoxSeq(n)]),
   wp   |-> WellPosedHerm(raw.st)]

-----------------------------------------------------------------------------
(* One order of the reference solution.  Uf, Udf are defined on all m < n. *)

RefStep(c, Uf, Udf, n) ==
  LET d    == c.d
      K    == c.K
      H0   == c.H[OZero(c.k)]
      box  == {c.bx[n][i] : i \in 1..Len(c.bx[n])}
      Ux   == TLCEval([m \in box |-> IF m = n THEN MZero(d, d) ELSE Uf[m]])
      Udx  == TLCEval([m \in box |-> IF m = n THEN MZero(d, d) ELSE Udf[m]])
      W    == MScale(FNeg(Half), Cauchy2B(Udx, Ux, n, c.bx))
      Rest == Cauchy3B(Udx, c.H, Ux, n, c.bx)
      T    == MAdd(Rest, AntiComm(W, H0))
      V    == TLCEval([i \in 1..d |-> TLCEval([j \in 1..d |->
                 IF K[i][j] = 1 THEN FZ
                 ELSE FNeg(FDiv(T[i][j], FSub(c.st.E[i], c.st.E[j])))])])
  IN  [U  |-> MAdd(W, V),
       Ud |-> MSub(W, V),
       Ht |-> MHad(K, MAdd(T, Comm(H0, V)))]

RefZero(c) == [U |-> MId(c.d), Ud |-> MId(c.d), Ht |-> c.H[OZero(c.k)]]

-----------------------------------------------------------------------------
(* The defining equations, as predicates on ARBITRARY series Us, Uds, Hts  *)
(* (defined at least on all m <= n) -- applied to the reference in model   *)
(* checking and to the implementation's logged output in trace validation. *)

Target(c, n) == IF OTotal(n) = 0 THEN MId(c.d) ELSE MZero(c.d, c.d)

ClUnitL(c, Us, Uds, n)  == Cauchy2B(Uds, Us, n, c.bx) = Target(c, n)
ClUnitR(c, Us, Uds, n)  == Cauchy2B(Us, Uds, n, c.bx) = Target(c, n)
Transformed(c, Us, Uds, n) == Cauchy3B(Uds, c.H, Us, n, c.bx)
ClKept(c, TT, Hts, n)   == MHad(c.K, TT) = MHad(c.K, Hts[n])
ClElim(c, TT, n)        == IsZeroM(MHad(MCompl(c.K), TT))
ClHtElimZero(c, Hts, n) == IsZeroM(MHad(MCompl(c.K), Hts[n]))
ClGauge(c, Us, n)       == LET X == MSub(Us[n], Target(c, n))
                           IN  IsZeroM(MHad(c.K, MSub(X, MAdj(X))))
ClAdjPair(Us, Uds, n)   == Uds[n] = MAdj(Us[n])
ClHtHerm(Hts, n)        == Hts[n] = MAdj(Hts[n])

AllClauses(c, Us, Uds, Hts, n) ==
  LET TT == Transformed(c, Us, Uds, n) IN
  /\ ClUnitL(c, Us, Uds, n) /\ ClUnitR(c, Us, Uds, n)
  /\ ClKept(c, TT, Hts, n)  /\ ClElim(c, TT, n) /\ ClHtElimZero(c, Hts, n)
  /\ ClGauge(c, Us, n)      /\ ClAdjPair(Us, Uds, n) /\ ClHtHerm(Hts, n)

\* Hermitian input: every H_n Hermitian, H_0 = diag(E)
InputOK(c) == /\ c.H[OZero(c.k)] = H0Of(c.st)
              /\ \A n \in OrdersUpTo(c.k, c.N) : c.H[n] = MAdj(c.H[n])

-----------------------------------------------------------------------------
Init == /\ cfg \in {Prepare(r) : r \in RawCfgs}
        /\ pos = 0
        /\ U = <<>> /\ Ud = <<>> /\ Ht = <<>>

SolveOrder ==
  /\ pos < Len(cfg.ords)
  /\ cfg.wp
  /\ LET n == cfg.ords[pos + 1]
         r == IF pos = 0 THEN RefZero(cfg) ELSE RefStep(cfg, U, Ud, n)
     IN  /\ U'  = (n :> r.U)  @@ U
         /\ Ud' = (n :> r.Ud) @@ Ud
         /\ Ht' = (n :> r.Ht) @@ Ht
  /\ pos' = pos + 1
  /\ cfg' = cfg

Next == SolveOrder
Spec == Init /\ [][Next]_lavars

-----------------------------------------------------------------------------
(* Invariants of the reference (Mode A): the most recently solved order    *)
(* satisfies every defining equation (earlier orders were checked in       *)
(* earlier states).                                                        *)
LastOrder == cfg.ords[pos]
InvDefining == pos > 0 => AllClauses(cfg, U, Ud, Ht, LastOrder)
InvUnitary  == pos > 0 => ClUnitL(cfg, U, Ud, LastOrder) /\ ClUnitR(cfg, U, Ud, LastOrder)
InvElim     == pos > 0 => LET TT == Transformed(cfg, U, Ud, LastOrder)
                          IN ClElim(cfg, TT, LastOrder) /\ ClKept(cfg, TT, Ht, LastOrder)
InvGauge    == pos > 0 => ClGauge(cfg, U, LastOrder)
InvAdjPair  == pos > 0 => ClAdjPair(U, Ud, LastOrder)
InvHtHerm   == pos > 0 => ClHtHerm(Ht, LastOrder)
=============================================================================
