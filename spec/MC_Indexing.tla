----------------------------- MODULE MC_Indexing -----------------------------
(***************************************************************************)
(* Mode A for Indexing.tla: TLC enumerates EVERY index expression over a   *)
(* menu of components (integers incl. negative and out-of-range, lists,    *)
(* slices with None / negative bounds and steps 1, 2) for the series       *)
(* shapes below and checks the transcription against itself: result size   *)
(* = product of shape, every source tuple in range, the source tuples of a *)
(* list-free expression are exactly the axis-wise selections, scalar iff   *)
(* all components are integers, validity as the property states it.        *)
(***************************************************************************)
EXTENDS Indexing

CONSTANT Fin, NInf
Fin23 == <<2, 3>>
Fin2  == <<2>>

IntsFin(n)  == {IntC(v) : v \in (-(n + 1))..n}
ListsFin(n) == {ListC(<<0>>), ListC(<<n - 1, 0>>), ListC(<<-1, 0, 0>>)}
Slices(los, his) ==
  {SliceC(lo, hi, st, 0, 0) : lo \in los, hi \in his, st \in {1, 2}}
  \cup {SliceC(0, hi, st, 1, 0) : hi \in his, st \in {1, 2}}
  \cup {SliceC(lo, 0, st, 0, 1) : lo \in los, st \in {1, 2}}
  \cup {SliceC(0, 0, st, 1, 1) : st \in {1, 2}}
MenuFin(n) == IntsFin(n) \cup ListsFin(n) \cup Slices({1, -1}, {2, -1})
MenuInf    == {IntC(v) : v \in -1..2} \cup {ListC(<<0, 1>>), ListC(<<2, 0>>), ListC(<<-1>>)}
              \cup Slices({1, -1}, {0, 2, -1})

ND == Len(Fin) + NInf
Menu(a) == IF a <= Len(Fin) THEN MenuFin(Fin[a]) ELSE MenuInf
Exprs == {e \in [1..ND -> UNION {Menu(a) : a \in 1..ND}] :
            /\ \A a \in 1..ND : e[a] \in Menu(a)
            /\ Cardinality({a \in 1..ND : e[a].k = "list"}) <= 1}

VARIABLE e
Init == e \in Exprs
Next == UNCHANGED e

RECURSIVE Prod(_)
Prod(s) == IF s = <<>> THEN 1 ELSE Head(s) * Prod(Tail(s))

V == Verdict(Fin, NInf, e)
Dims == [a \in 1..ND |-> IF a <= Len(Fin) THEN Fin[a] ELSE TrialSize(e[a])]

InvSize    == V.ok => Len(V.cells) = Prod(V.shape)
InvInRange == V.ok => \A q \in 1..Len(V.cells) : \A a \in 1..ND :
                        V.cells[q][a] >= 0 /\ V.cells[q][a] < Dims[a]
InvAxiswise == (V.ok /\ \A a \in 1..ND : e[a].k # "list") =>
                 /\ \A q \in 1..Len(V.cells) : SelectedAxiswise(Fin, NInf, e, V.cells[q])
                 /\ Cardinality({V.cells[q] : q \in 1..Len(V.cells)}) = Len(V.cells)
InvScalar  == V.ok => (V.scalar <=> V.shape = <<>>) \/ (\E a \in 1..ND : e[a].k = "list")
\* the property's wording: open-ended or negative orders are errors
InvOrders  == (\E a \in (Len(Fin) + 1)..ND :
                 \/ (e[a].k = "slice" /\ (e[a].hin = 1 \/ e[a].hi < 0 \/ (e[a].lon = 0 /\ e[a].lo < 0)))
                 \/ (e[a].k = "int" /\ e[a].v < 0)
                 \/ (e[a].k = "list" /\ \E i \in 1..Len(e[a].vs) : e[a].vs[i] < 0)) => ~V.ok
=============================================================================
