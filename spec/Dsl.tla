--------------------------------- MODULE Dsl ---------------------------------
(***************************************************************************)
(* C09: the series mini-language (algorithm_parsing.py) as DATA, and its   *)
(* direct, unoptimised meaning.                                            *)
(*                                                                         *)
(* A program is what the harness's own parser (dsl_parse.py, independent   *)
(* of the library's) reads from the algorithm's source:                    *)
(*   series   [name, start, herm, lines]   lines = <<[cond, expr]>>        *)
(*   products [name, factors, hermitian]                                   *)
(*   expr     <<"ref", name, adj>> | <<"neg", e>> | <<"sum", <<e..>>>>     *)
(*            | <<"div", e, k>> | <<"call", f, e>> | <<"callseries", f, n>>*)
(*            | <<"zero">>                                                 *)
(*                                                                         *)
(* The meaning is EQUATIONAL: a table  tab[name][block i, block j, order]  *)
(* of values is the denotation iff every cell satisfies its defining       *)
(* equation read off the program with NO optimisation:                     *)
(*   - start = 0 / 1 / "X_0" pins the zeroth order (1: diagonal blocks),   *)
(*   - hermitian / antihermitian: a lower block is +- the adjoint of the   *)
(*     mirrored upper block,                                               *)
(*   - all lines are summed (`lower` lines apply to i > j);                *)
(*     `diagonal` lines apply to i = j and keep the                        *)
(*     kept elements of the block; `offdiagonal` lines apply to i # j and, *)
(*     on i = j, to the elements selected for elimination (nothing if the  *)
(*     block has no selection),                                            *)
(*   - `zero if flag else e` means e (flags are optimisations),            *)
(*   - a product is the Cauchy product of its factors, left associated,    *)
(*     whatever its `hermitian` marker says,                               *)
(*   - solve_sylvester(Y)[a,b] = Y[a,b] / (E_a - E_b)  (0 where E_a = E_b).*)
(* The defining equations of a well-founded program have exactly one       *)
(* solution (they are triangular in the order of evaluation), so a table   *)
(* that satisfies all of them IS the unoptimised interpretation.  The      *)
(* trace spec checks that the table produced by the REAL compiled engine   *)
(* -- every element of every series, requested in random order, with       *)
(* deletion, Hermiticity shortcuts and flags active -- is such a table.    *)
(***************************************************************************)
EXTENDS Mat, MultiOrder, TLC

\* ---- context: block structure, energies, selections, order bookkeeping ------
\* ctx = [nb, sizes, E (per block), keep (per block: 0/1 matrix or <<>>), ords, splits, tab]
NO(ctx) == Len(ctx.ords)
CellIdx(ctx, i, j, pos) == ((i * ctx.nb) + j) * NO(ctx) + pos      \* i, j 0-based, pos 1-based
RawCell(ctx, name, i, j, pos) == ctx.tab[name][CellIdx(ctx, i, j, pos)]
Shape(ctx, i, j) == <<ctx.sizes[i + 1], ctx.sizes[j + 1]>>
ValOf(ctx, name, i, j, pos) ==
  LET c == RawCell(ctx, name, i, j, pos) IN
  IF c.tag = "zero" THEN MZero(ctx.sizes[i + 1], ctx.sizes[j + 1])
  ELSE IF c.tag = "one" THEN MId(ctx.sizes[i + 1]) ELSE c.v

HasMask(ctx, i)  == Len(ctx.keep[i + 1]) > 0
MaskKeep(ctx, i, X) == IF HasMask(ctx, i) THEN MHad(ctx.keep[i + 1], X) ELSE X
MaskElim(ctx, i, X) == IF HasMask(ctx, i) THEN MHad(MCompl(ctx.keep[i + 1]), X)
                       ELSE MZero(ctx.sizes[i + 1], ctx.sizes[i + 1])

\* ---- scope functions known to both sides --------------------------------------
Sylv(ctx, Y, i, j) ==
  TLCEval([a \in 1..ctx.sizes[i + 1] |-> TLCEval([b \in 1..ctx.sizes[j + 1] |->
     IF ctx.E[i + 1][a] = ctx.E[j + 1][b] THEN FZ
     ELSE FDiv(Y[a][b], FSub(ctx.E[i + 1][a], ctx.E[j + 1][b]))])])
ApplyF(ctx, f, Y, i, j) ==
  CASE f = "solve_sylvester" -> Sylv(ctx, Y, i, j)
    [] f = "dbl"   -> MAdd(Y, Y)
    [] f = "tri"   -> MAdd(Y, MAdd(Y, Y))
    [] f = "ident" -> Y

\* ---- products -------------------------------------------------------------------
IsProduct(ctx, name) == \E q \in 1..Len(ctx.prog.products) : ctx.prog.products[q].name = name
RECURSIVE ChainVal(_, _, _, _, _, _)
ChainVal(ctx, fs, q, i, j, pos) ==
  IF q = 1 THEN ValOf(ctx, fs[1], i, j, pos)
  ELSE
    LET sp == ctx.splits[pos]
        RECURSIVE SumS(_, _)
        SumS(k, s) == IF s = 0 THEN MZero(ctx.sizes[i + 1], ctx.sizes[j + 1])
                      ELSE MAdd(MMul(ChainVal(ctx, fs, q - 1, i, k, sp[s][1]),
                                     ValOf(ctx, fs[q], k, j, sp[s][2])), SumS(k, s - 1))
        RECURSIVE SumK(_)
        SumK(k) == IF k < 0 THEN MZero(ctx.sizes[i + 1], ctx.sizes[j + 1])
                   ELSE MAdd(SumS(k, Len(sp)), SumK(k - 1))
    IN SumK(ctx.nb - 1)
ProductDef(ctx, pr, i, j, pos) == ChainVal(ctx, pr.factors, Len(pr.factors), i, j, pos)

\* ---- expressions ----------------------------------------------------------------
RECURSIVE EvalE(_, _, _, _, _)
EvalE(ctx, e, i, j, pos) ==
  CASE e[1] = "ref"  -> IF e[3] = 1 THEN MAdj(ValOf(ctx, e[2], j, i, pos)) ELSE ValOf(ctx, e[2], i, j, pos)
    [] e[1] = "neg"  -> MNeg(EvalE(ctx, e[2], i, j, pos))
    [] e[1] = "sum"  -> LET RECURSIVE Acc(_)
                            Acc(q) == IF q = 0 THEN MZero(ctx.sizes[i + 1], ctx.sizes[j + 1])
                                      ELSE MAdd(EvalE(ctx, e[2][q], i, j, pos), Acc(q - 1))
                        IN Acc(Len(e[2]))
    [] e[1] = "div"  -> MScale(FInv(FInt(e[3])), EvalE(ctx, e[2], i, j, pos))
    [] e[1] = "call" -> ApplyF(ctx, e[2], EvalE(ctx, e[3], i, j, pos), i, j)
    [] e[1] = "callseries" -> ApplyF(ctx, e[2], ValOf(ctx, e[3], i, j, pos), i, j)
    [] e[1] = "zero" -> MZero(ctx.sizes[i + 1], ctx.sizes[j + 1])

LineVal(ctx, ln, i, j, pos) ==
  CASE ln.cond = "default"     -> EvalE(ctx, ln.expr, i, j, pos)
    [] ln.cond = "diagonal"    -> IF i = j THEN MaskKeep(ctx, i, EvalE(ctx, ln.expr, i, j, pos))
                                  ELSE MZero(ctx.sizes[i + 1], ctx.sizes[j + 1])
    [] ln.cond = "offdiagonal" -> IF i # j THEN EvalE(ctx, ln.expr, i, j, pos)
                                  ELSE MaskElim(ctx, i, EvalE(ctx, ln.expr, i, j, pos))
    \* `lower`: indices in the lower triangle.  (The harness writes such a line LAST in a definition:
    \* the compiled code returns right after it, which the documentation does not say.)
    [] ln.cond = "lower"       -> IF i > j THEN EvalE(ctx, ln.expr, i, j, pos)
                                  ELSE MZero(ctx.sizes[i + 1], ctx.sizes[j + 1])

StripZero(s) == SubSeq(s, 7, Len(s) - 2)      \* "input:H_0" -> "H"
SeriesDef(ctx, s, i, j, pos) ==
  LET zeroth == OTotal(ctx.ords[pos]) = 0 IN
  IF zeroth /\ s.start = "zero" THEN MZero(ctx.sizes[i + 1], ctx.sizes[j + 1])
  ELSE IF zeroth /\ s.start = "one" /\ i = j THEN MId(ctx.sizes[i + 1])
  ELSE IF zeroth /\ s.start \notin {"none", "zero", "one"}
       THEN ValOf(ctx, ctx.startmap[s.name], i, j, pos)
  ELSE IF s.herm = "hermitian" /\ i > j THEN MAdj(ValOf(ctx, s.name, j, i, pos))
  ELSE IF s.herm = "antihermitian" /\ i > j THEN MNeg(MAdj(ValOf(ctx, s.name, j, i, pos)))
  ELSE LET RECURSIVE Acc(_)
           Acc(q) == IF q = 0 THEN MZero(ctx.sizes[i + 1], ctx.sizes[j + 1])
                     ELSE MAdd(LineVal(ctx, s.lines[q], i, j, pos), Acc(q - 1))
       IN Acc(Len(s.lines))

\* the defining equation of one cell
SeriesCellOK(ctx, s, i, j, pos)  == ValOf(ctx, s.name, i, j, pos) = SeriesDef(ctx, s, i, j, pos)
ProductCellOK(ctx, pr, i, j, pos) == ValOf(ctx, pr.name, i, j, pos) = ProductDef(ctx, pr, i, j, pos)
=============================================================================
