--------------------------- MODULE MC_EngineCyclic ---------------------------
(***************************************************************************)
(* C19, last clause, at the level of the engine protocol: a program whose  *)
(* definitions are SELF-REFERENTIAL (A_n needs B_n, B_n needs A_n; also a  *)
(* directly self-referential S_n) next to a well-founded part (C_n from    *)
(* the input H_n and C_{n-1}).  Every interleaving of requests, look-ups   *)
(* and callback faults:                                                    *)
(*   - a request that reaches the cycle never returns a value and never    *)
(*     hangs: it ends in RuntimeError (PendingHit -> Unwind* -> Raise),    *)
(*   - it leaves no in-flight marker behind (InvIdleClean), so             *)
(*   - the well-founded outputs stay computable afterwards,                *)
(*   - under weak fairness every request comes back (EveryRequestReturns). *)
(***************************************************************************)
EXTENDS Engine

CONSTANT N

El(s, n) == <<s, <<n>>, <<n>>>>
Cyclic   == {El(s, n) : s \in {"A", "B", "S"}, n \in 0..N}
Sound    == {El("C", n) : n \in 0..N}
CyOutputs == {El(s, n) : s \in {"A", "S", "C"}, n \in 0..N}

CyDeps(e) ==
  LET s == e[1] n == e[2][1] IN
  CASE s = "H" -> {}
    [] s = "A" -> {El("B", n)}
    [] s = "B" -> {El("A", n), El("H", n)}
    [] s = "S" -> {El("S", n)} \cup {El("C", m) : m \in 0..(n - 1)}
    [] s = "C" -> {El("H", n)} \cup {El("C", m) : m \in 0..(n - 1)}

CyIsOutput(e)    == e \in CyOutputs
CyIsInput(e)     == e[1] = "H"
CyIsDeletable(e) == FALSE
CyMayFetch(p, d, F) == d \in CyDeps(p) \ F
CyComplete(p, F) == F = CyDeps(p)
CyUsed(F, d)     == d \in F
CyTags(e)        == {"val"}

Goals == {CellsGoal({e}) : e \in CyOutputs}
         \cup {CellsGoal({El(s, m) : m \in 0..n}) : s \in {"A", "C"}, n \in 1..N}

CNext ==
  \/ \E g \in Goals : UserRequest(g)
  \/ \E d \in Cyclic \cup Sound \cup {El("H", n) : n \in 0..N} : Hit(d) \/ Begin(d) \/ PendingHit(d)
  \/ End("val")
  \/ Return
  \/ \E cls \in ExcClasses : Fault(cls)
  \/ Unwind \/ Raise

CSpec == EInit /\ [][CNext]_evars
CFair == CSpec /\ WF_evars(CNext)

\* a cell on a cycle is never finished, so a request that needs one never returns a value
InvCycleNeverFinished == \A e \in Cyclic : ~Done(Cell(e))
InvCycleRaises == (mode = "idle" /\ outcome = "returned") => goal.cells \cap Cyclic = {}
\* ... and what reaches the user without any injected fault is the RuntimeError of the
\* recursion detection (series.py:199-200), for requests on the cycle only
InvRecursionError == (mode = "idle" /\ outcome = "raised" /\ faults = 0)
                        => (exc = "RuntimeError" /\ goal.cells \cap Cyclic # {})
=============================================================================
