----------------------------- MODULE BlockStruct ----------------------------
(***************************************************************************)
(* Block partitions, degeneracy classes of H_0, and the derivation of the  *)
(* kept (S) / eliminated (R) pattern from the PUBLIC arguments of          *)
(* block_diagonalize, as its documentation states them.                    *)
(*                                                                         *)
(* A structure record st has                                               *)
(*   d      total dimension                                                *)
(*   block  sequence 1..d -> block id (0-based, as the user numbers them); *)
(*          the basis is the block-ordered basis (block[i] nondecreasing)  *)
(*   E      sequence 1..d of field elements: unperturbed energies          *)
(*   fdkind "none" | "tuple" | "dict"                                      *)
(*   fdset  set of block ids named by fully_diagonalize (tuple form), or   *)
(*          the keys of the dict form                                      *)
(*   elim   for the dict form: function block id -> 0/1 matrix in block-   *)
(*          local coordinates, 1 = "eliminate this element"                *)
(***************************************************************************)
EXTENDS Mat

NBlocks(st) == Cardinality({st.block[i] : i \in 1..st.d})
Local(st, i) == Cardinality({j \in 1..i : st.block[j] = st.block[i]})

\* A single block with no fully_diagonalize argument is fully diagonalized.
EffKind(st) == IF st.fdkind = "none" /\ NBlocks(st) = 1 THEN "tuple" ELSE st.fdkind
EffSet(st)  == IF st.fdkind = "none" /\ NBlocks(st) = 1 THEN {st.block[1]} ELSE st.fdset

Keep(st, i, j) ==
  IF st.fdkind = "direct" THEN st.keepm[i][j] = 1     \* pattern computed elsewhere (Fock space)
  ELSE IF st.block[i] # st.block[j] THEN FALSE
  ELSE IF EffKind(st) = "tuple" /\ st.block[i] \in EffSet(st) THEN st.E[i] = st.E[j]
  ELSE IF EffKind(st) = "dict"  /\ st.block[i] \in EffSet(st)
       THEN st.elim[st.block[i]][Local(st, i)][Local(st, j)] = 0
  ELSE TRUE

KeepMask(st) == TLCEval([i \in 1..st.d |-> TLCEval([j \in 1..st.d |-> IF Keep(st, i, j) THEN 1 ELSE 0])])

MaskSymmetric(K) == \A i \in 1..Len(K) : \A j \in 1..Len(K) : K[i][j] = K[j][i]

\* The problem is well posed iff no eliminated pair shares an unperturbed
\* energy (the Sylvester denominators E_i - E_j are then all invertible).
WellPosed(st) == \A i \in 1..st.d : \A j \in 1..st.d :
                   (~Keep(st, i, j)) => st.E[i] # st.E[j]
\* Hermitian mode additionally needs a symmetric pattern.
WellPosedHerm(st) == WellPosed(st) /\ MaskSymmetric(KeepMask(st))

H0Of(st) == TLCEval([i \in 1..st.d |-> TLCEval([j \in 1..st.d |-> IF i = j THEN st.E[i] ELSE FZ])])
=============================================================================
