-------------------------------- MODULE Mat --------------------------------
(***************************************************************************)
(* Dense matrices over GF(P^2): a matrix is a function                     *)
(* [1..r -> [1..c -> F]].  Operators bind their arguments with LET so that *)
(* TLC evaluates an argument expression once (operator arguments are       *)
(* call-by-name).                                                          *)
(***************************************************************************)
EXTENDS Field, Sequences, FiniteSets, TLC

Rows(A) == Len(A)
Cols(A) == IF Len(A) = 0 THEN 0 ELSE Len(A[1])

MZero(r, c) == TLCEval([i \in 1..r |-> TLCEval([j \in 1..c |-> FZ])])
MId(d)      == TLCEval([i \in 1..d |-> TLCEval([j \in 1..d |-> IF i = j THEN FOne ELSE FZ])])

MAdd(A, B) == LET a == A b == B IN
  TLCEval([i \in 1..Rows(a) |-> TLCEval([j \in 1..Cols(a) |-> FAdd(a[i][j], b[i][j])])])
MSub(A, B) == LET a == A b == B IN
  TLCEval([i \in 1..Rows(a) |-> TLCEval([j \in 1..Cols(a) |-> FSub(a[i][j], b[i][j])])])
MNeg(A) == LET a == A IN
  TLCEval([i \in 1..Rows(a) |-> TLCEval([j \in 1..Cols(a) |-> FNeg(a[i][j])])])
MScale(s, A) == LET a == A t == s IN
  TLCEval([i \in 1..Rows(a) |-> TLCEval([j \in 1..Cols(a) |-> FMul(t, a[i][j])])])
MHalf(A) == MScale(Half, A)

RECURSIVE DotF(_, _, _, _, _)
DotF(a, b, i, j, k) == IF k = 0 THEN FZ
                       ELSE FAdd(FMul(a[i][k], b[k][j]), DotF(a, b, i, j, k - 1))

MMul(A, B) == LET a == A b == B n == Cols(a) IN
  TLCEval([i \in 1..Rows(a) |-> TLCEval([j \in 1..Cols(b) |-> DotF(a, b, i, j, n)])])

MAdj(A) == LET a == A IN
  TLCEval([i \in 1..Cols(a) |-> TLCEval([j \in 1..Rows(a) |-> FConj(a[j][i])])])
MTr(A) == LET a == A IN
  TLCEval([i \in 1..Cols(a) |-> TLCEval([j \in 1..Rows(a) |-> a[j][i]])])
MConj(A) == LET a == A IN
  TLCEval([i \in 1..Rows(a) |-> TLCEval([j \in 1..Cols(a) |-> FConj(a[i][j])])])

\* Hadamard product with a 0/1 mask  K[i][j] \in {0,1}
MHad(K, A) == LET a == A k == K IN
  TLCEval([i \in 1..Rows(a) |-> TLCEval([j \in 1..Cols(a) |-> IF k[i][j] = 1 THEN a[i][j] ELSE FZ])])
MCompl(K) == TLCEval([i \in 1..Len(K) |-> TLCEval([j \in 1..Len(K[i]) |-> 1 - K[i][j]])])

RECURSIVE TrF(_, _)
TrF(a, k) == IF k = 0 THEN FZ ELSE FAdd(a[k][k], TrF(a, k - 1))
Trace(A) == LET a == A IN TrF(a, Rows(a))

IsZeroM(A) == LET a == A IN \A i \in 1..Rows(a) : \A j \in 1..Cols(a) : a[i][j] = FZ
Comm(A, B)     == MSub(MMul(A, B), MMul(B, A))
AntiComm(A, B) == MAdd(MMul(A, B), MMul(B, A))

\* sub-matrix on index sequences rs (rows) and cs (columns)
MSub2(A, rs, cs) == LET a == A IN
  TLCEval([i \in 1..Len(rs) |-> TLCEval([j \in 1..Len(cs) |-> a[rs[i]][cs[j]]])])

\* conversion of deserialised JSON (tuples of tuples of pairs) is the identity:
\* tuples are functions on 1..n.

\* sum of a finite sequence of matrices (all r x c)
RECURSIVE MSumSeq(_, _, _, _)
MSumSeq(s, k, r, c) == IF k = 0 THEN MZero(r, c) ELSE MAdd(s[k], MSumSeq(s, k - 1, r, c))
=============================================================================
