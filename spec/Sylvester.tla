------------------------------ MODULE Sylvester ------------------------------
(***************************************************************************)
(* C16: what each built-in solver promises, as equations over GF(P^2).     *)
(*                                                                         *)
(* A session is one solver instance and a sequence of calls; each call     *)
(* record carries the kind of equation, the inputs the harness built       *)
(* (ground truth, exact) and the solver's output (exact, or snapped to the *)
(* bounded-denominator rational within the stated tolerance).              *)
(*                                                                         *)
(*  "diag"   H0i V - V H0j = Y for diagonal H0i = diag(Ei), H0j = diag(Ej) *)
(*           entrywise (Ei[a] - Ej[b]) V[a][b] = Y[a][b]; where the        *)
(*           energies coincide V[a][b] = 0                                 *)
(*  "right"  explicit block i against the implicit block: rows a of V      *)
(*           satisfy  V_a (E_a - h0) Pc = Y_a Pc  and  V Pc = V,           *)
(*           Pc = 1 - R L^dagger the complement projector                  *)
(*  "left"   implicit block against explicit block j (non-Hermitian mode): *)
(*           columns b:  Pc (h0 - E_b) V_b = Pc Y_b  and  Pc V = V         *)
(*  "green"  direct_greens_function:  (E - h) x = Pk v  and  x = Pk x,     *)
(*           Pk = 1 - K Kl^dagger the kernel-complement projector          *)
(***************************************************************************)
EXTENDS Mat, TLC, Json, IOUtils

AllSessions == UNION {{S[i] : i \in 1..Len(S)} : S \in {JsonDeserialize(IOEnv.TRACE_FILE)}}

VARIABLES ses, l, fails
svars == <<ses, l, fails>>

Call == ses.calls[l]

DiagOK(c) ==
  \A a \in 1..Len(c.Ei) : \A b \in 1..Len(c.Ej) :
    IF c.Ei[a] = c.Ej[b] THEN c.V[a][b] = FZ
    ELSE FMul(FSub(c.Ei[a], c.Ej[b]), c.V[a][b]) = c.Y[a][b]

Compl(Rv, Lv) == IF Cols(Rv) = 0 THEN MId(Len(Rv)) ELSE MSub(MId(Len(Rv)), MMul(Rv, MAdj(Lv)))
ScaleRows(E, A) == TLCEval([a \in 1..Len(A) |-> TLCEval([b \in 1..Len(A[a]) |-> FMul(E[a], A[a][b])])])
ScaleCols(E, A) == TLCEval([a \in 1..Len(A) |-> TLCEval([b \in 1..Len(A[a]) |-> FMul(E[b], A[a][b])])])

RightOK(c) ==
  LET Pc == Compl(c.R, c.L)
      lhs == MMul(MSub(ScaleRows(c.E, c.V), MMul(c.V, c.h0)), Pc)
  IN  /\ lhs = MMul(c.Y, Pc)
      /\ MMul(c.V, Pc) = c.V
LeftOK(c) ==
  LET Pc == Compl(c.R, c.L)
      lhs == MMul(Pc, MSub(MMul(c.h0, c.V), ScaleCols(c.E, c.V)))
  IN  /\ lhs = MMul(Pc, c.Y)
      /\ MMul(Pc, c.V) = c.V
GreenOK(c) ==
  LET Pk == Compl(c.R, c.L)
      d  == Len(c.h0)
      EmH == MSub(MScale(c.E[1], MId(d)), c.h0)
  IN  /\ MMul(EmH, c.V) = MMul(Pk, c.Y)
      /\ MMul(Pk, c.V) = c.V

Holds(c) == CASE c.kind = "diag"  -> DiagOK(c)
              [] c.kind = "right" -> RightOK(c)
              [] c.kind = "left"  -> LeftOK(c)
              [] c.kind = "green" -> GreenOK(c)

SInit == ses \in AllSessions /\ l = 1 /\ fails = {}
SCall == /\ l <= Len(ses.calls)
         /\ fails' = IF Holds(Call) THEN fails ELSE fails \cup {<<"C16." \o Call.kind \o "_equation", l>>}
         /\ l' = l + 1 /\ ses' = ses
SDone == /\ l = Len(ses.calls) + 1
         /\ \A f \in fails : PrintT(<<"FAIL", ses.sid, f[1], f[2]>>)
         /\ PrintT(<<"DONE", ses.sid, Cardinality(fails)>>)
         /\ l' = l + 1 /\ UNCHANGED <<ses, fails>>
SNext == SCall \/ SDone
=============================================================================
