------------------------------ MODULE Trace_Fock ------------------------------
(***************************************************************************)
(* C08 trace validation.  A session holds a set of modes, NumberOrderedForm*)
(* objects produced by the REAL class (operators, and for every term its   *)
(* power tuple and the table of its coefficient over the basis states),    *)
(* expression trees, and a list of checks:                                 *)
(*   denote  obj  = from_expr(tree)        Meaning(obj) = Denote(tree)     *)
(*   prod    z = x * y                     Meaning(z) = Meaning(x) Meaning(y)*)
(*   sum     z = x + y  /  diff z = x - y                                  *)
(*   pow     z = x ** k                                                    *)
(*   adj     z = adjoint(x)                Meaning(z) = Meaning(x)^dagger  *)
(*   eq      two objects denote the same operator (round trips, laws such  *)
(*           as (xy)z = x(yz) computed both ways by the real class)        *)
(* Every check is evaluated on all interior basis states (margin given per *)
(* check: the total ladder degree involved).  A coefficient with a pole at *)
(* an occupation that an interior state reaches is a failure too.          *)
(***************************************************************************)
EXTENDS Fock, Json, IOUtils

AllSessions == UNION {{S[i] : i \in 1..Len(S)} : S \in {JsonDeserialize(IOEnv.TRACE_FILE)}}

VARIABLES ses, l, fails
fvars == <<ses, l, fails>>

Ctx == [modes |-> ses.modes, states |-> ses.states, strides |-> ses.strides]
Obj(k) == ses.objs[k]
Chk == ses.checks[l]
Inner == Interior(Ctx, Chk.margin)

\* no pole of a coefficient is reached from basis state s
PoleFree(nof, v) ==
  \A k \in 1..Len(nof.terms) :
    LET w == AnnihilateDesc(Ctx, nof.terms[k].pw, 1, v) IN
    \A q \in 1..D(Ctx) : nof.terms[k].bad[q] = 1 => w[q] = FZ

RECURSIVE NofPow(_, _, _)
NofPow(nof, k, v) == IF k = 0 THEN v ELSE NofPow(nof, k - 1, NofApply(Ctx, nof, v))

Holds ==
  CASE Chk.kind = "denote" ->
         \A s \in Inner : LET e == UnitV(Ctx, s) IN
            PoleFree(Obj(Chk.z), e) /\ NofApply(Ctx, Obj(Chk.z), e) = TreeApply(Ctx, ses.trees[Chk.tree], e)
    [] Chk.kind = "prod" ->
         \A s \in Inner : LET e == UnitV(Ctx, s) IN
            PoleFree(Obj(Chk.z), e) /\
            NofApply(Ctx, Obj(Chk.z), e) = NofApply(Ctx, Obj(Chk.x), NofApply(Ctx, Obj(Chk.y), e))
    [] Chk.kind = "sum" ->
         \A s \in Inner : LET e == UnitV(Ctx, s) IN
            NofApply(Ctx, Obj(Chk.z), e) = VAdd(NofApply(Ctx, Obj(Chk.x), e), NofApply(Ctx, Obj(Chk.y), e))
    [] Chk.kind = "diff" ->
         \A s \in Inner : LET e == UnitV(Ctx, s) IN
            NofApply(Ctx, Obj(Chk.z), e) =
              VAdd(NofApply(Ctx, Obj(Chk.x), e), VScale(FNeg(FOne), NofApply(Ctx, Obj(Chk.y), e)))
    [] Chk.kind = "pow" ->
         \A s \in Inner : LET e == UnitV(Ctx, s) IN
            PoleFree(Obj(Chk.z), e) /\ NofApply(Ctx, Obj(Chk.z), e) = NofPow(Obj(Chk.x), Chk.k, e)
    [] Chk.kind = "adj" ->
         \A s \in Inner : \A t \in Inner :
            FMul(NofApply(Ctx, Obj(Chk.z), UnitV(Ctx, s))[t], G(Ctx, t))
              = FMul(FConj(NofApply(Ctx, Obj(Chk.x), UnitV(Ctx, t))[s]), G(Ctx, s))
    \* second-quantised Sylvester solver (C16): H_ii V - V H_jj = Y as an operator identity;
    \* x = H_ii, y = H_jj, z = V, w = Y.  "sylvdiag": the number-conserving part of Y on a
    \* diagonal element is not solvable and is left out -- compare off the Fock diagonal only
    [] Chk.kind \in {"sylv", "sylvdiag"} ->
         \A s \in Inner : LET e  == UnitV(Ctx, s)
                              lhs == VAdd(NofApply(Ctx, Obj(Chk.x), NofApply(Ctx, Obj(Chk.z), e)),
                                          VScale(FNeg(FOne), NofApply(Ctx, Obj(Chk.z), NofApply(Ctx, Obj(Chk.y), e))))
                              rhs == NofApply(Ctx, Obj(Chk.w), e)
                          IN  /\ PoleFree(Obj(Chk.z), e)
                              /\ \A t \in 1..D(Ctx) : (Chk.kind = "sylv" \/ t # s) => lhs[t] = rhs[t]
    [] Chk.kind = "eq" ->
         \A s \in Inner : LET e == UnitV(Ctx, s) IN
            NofApply(Ctx, Obj(Chk.z), e) = NofApply(Ctx, Obj(Chk.x), e)

FInit == ses \in AllSessions /\ l = 1 /\ fails = {}
FStep == /\ l <= Len(ses.checks)
         /\ fails' = IF Holds THEN fails ELSE fails \cup {<<"C08." \o Chk.kind, l>>}
         /\ l' = l + 1 /\ ses' = ses
FDone == /\ l = Len(ses.checks) + 1
         /\ \A f \in fails : PrintT(<<"FAIL", ses.sid, f[1], f[2]>>)
         /\ PrintT(<<"DONE", ses.sid, Cardinality(fails)>>)
         /\ l' = l + 1 /\ UNCHANGED <<ses, fails>>
FNext == FStep \/ FDone
=============================================================================
