CONSTANT P = 46199
CONSTANT RawCfgs <- MCRaw
CONSTANT Dims = {2, 3}
CONSTANT MaxLevel = 2
CONSTANT MaxK = 1
CONSTANT MaxN = 3
CONSTANT Seed = 1
INIT SimInit
NEXT SimNext
CHECK_DEADLOCK FALSE
INVARIANT InvDefiningSim
