CONSTANT N = 1
CONSTANT IsOutput <- CyIsOutput
CONSTANT IsInput <- CyIsInput
CONSTANT IsDeletable <- CyIsDeletable
CONSTANT MayFetch <- CyMayFetch
CONSTANT Complete <- CyComplete
CONSTANT Used <- CyUsed
CONSTANT TagOf <- CyTags
CONSTANT MaxFaults = 1
CONSTANT MaxRequests = 3
CONSTANT ExcClasses = {"Exception", "RuntimeError", "KeyboardInterrupt"}
SPECIFICATION CFair
CHECK_DEADLOCK FALSE
INVARIANT TypeOK
INVARIANT InvPendingIsStack
INVARIANT InvIdleClean
INVARIANT InvExcClass
INVARIANT InvReturnedDone
INVARIANT InvCycleNeverFinished
INVARIANT InvCycleRaises
INVARIANT InvRecursionError
PROPERTY EveryRequestReturns
