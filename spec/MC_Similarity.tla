---------------------------- MODULE MC_Similarity ----------------------------
(* Mode A: every configuration within the bounds (block compositions, energy  *)
(* assignments incl. degeneracies, every fully_diagonalize form incl. ALL      *)
(* asymmetric elimination masks), pseudo-random NON-Hermitian terms at every   *)
(* order: the reference similarity solver satisfies the defining equations.    *)
EXTENDS Similarity

CONSTANTS Dims, MaxLevel, MaxK, MaxN, Seed

Hash(a, b, c, e) == M(M(M(a * 7919 + b * 104) * 31 + M(c * 977 + e * 13)) * 2521 + M(Seed * 7717 + 4242))
GenVal(d, t) == TLCEval([i \in 1..d |-> TLCEval([j \in 1..d |-> <<Hash(t, i, j, 2), Hash(t, i, j, 3)>>])])

BlockSeqs(d) == {b \in [1..d -> 0..(d - 1)] :
                   /\ b[1] = 0 /\ \A i \in 1..(d - 1) : b[i + 1] \in {b[i], b[i] + 1}}
\* complex energies: levels l + l*i
Energies(d)  == [1..d -> {<<l, M(2 * l)>> : l \in 0..MaxLevel}]
BlocksOf(b, d) == {b[i] : i \in 1..d}
SizeOf(b, d, x) == Cardinality({i \in 1..d : b[i] = x})
AnyMasks(s) == {m \in [1..s -> [1..s -> {0, 1}]] : \A i \in 1..s : m[i][i] = 0}

FdForms(b, d) ==
  LET bl == BlocksOf(b, d) IN
  {[fdkind |-> "none", fdset |-> {}, elim |-> [x \in bl |-> <<>>]]}
  \cup {[fdkind |-> "tuple", fdset |-> s, elim |-> [x \in bl |-> <<>>]] : s \in (SUBSET bl) \ {{}}}
  \cup UNION {
        {[fdkind |-> "dict", fdset |-> s, elim |-> e] :
           e \in {f \in [bl -> UNION {AnyMasks(SizeOf(b, d, x)) : x \in bl} \cup {<<>>}] :
                    \A x \in bl : IF x \in s THEN f[x] \in AnyMasks(SizeOf(b, d, x)) ELSE f[x] = <<>>}}
        : s \in (SUBSET bl) \ {{}}}

Structs == UNION { UNION {
  {[d |-> d, block |-> b, E |-> e, fdkind |-> f.fdkind, fdset |-> f.fdset, elim |-> f.elim] :
     e \in Energies(d), f \in FdForms(b, d)} : b \in BlockSeqs(d)} : d \in Dims}

MkRaw(st, k) ==
  LET os == OrderSeq(k, MaxN) IN
  [st |-> st, k |-> k, N |-> MaxN,
   H |-> TLCEval([n \in OrdersUpTo(k, MaxN) |->
           IF OTotal(n) = 0 THEN H0Of(st)
           ELSE GenVal(st.d, CHOOSE t \in 1..Len(os) : os[t] = n)])]

MCRaw == {MkRaw(st, k) : st \in {s \in Structs : WellPosed(s)}, k \in 1..MaxK}
=============================================================================
