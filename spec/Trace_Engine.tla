----------------------------- MODULE Trace_Engine ----------------------------
(***************************************************************************)
(* Trace validation of the real engine against Engine.tla.                 *)
(*                                                                         *)
(* A session is the event stream the harness-side tracer recorded while    *)
(* driving real BlockSeries objects (block_diagonalize outputs, products,  *)
(* hand-built series): one event per Engine action, with arguments.        *)
(*                                                                         *)
(*    req     -> UserRequest      begin -> Begin        end  -> End        *)
(*    pop     -> Discard          inject-> Fault        fail -> Unwind     *)
(*    preset  -> Preset                                                    *)
(*    detect  -> PendingHit       ret   -> Return       raise-> Raise      *)
(*                                                                         *)
(* The specification's actions are reused unchanged; the trace spec adds   *)
(* the cursor l, binds logged fields, and adds the clauses that compare    *)
(* the model's state with the projection of the real state logged at       *)
(* ret / raise (number of in-flight markers found in the real caches) and  *)
(* the logged values with the values of an undisturbed computation.        *)
(* In trace mode the engine is maximally permissive about dependencies     *)
(* (MayFetch, Complete, Used are TRUE): only the protocol is judged.       *)
(* A session ends with ACCEPT, or with REJECT naming the first event no    *)
(* action can consume and the clause that fails.                           *)
(***************************************************************************)
EXTENDS Engine, Json, IOUtils

\* the file is parsed ONCE: S is bound to the parsed value by enumerating a singleton
AllSessions == UNION {{S[i] : i \in 1..Len(S)} : S \in {JsonDeserialize(IOEnv.TRACE_FILE)}}

VARIABLES ses, l, verdict
tvars == <<evars, ses, l, verdict>>

TrTrue1(x)     == TRUE
TrTrue2(x, y)  == TRUE
TrTrue3(x, y, z) == TRUE
TrFalse1(x)    == FALSE
TrTags(x)      == {"zero", "one", "val"}

Ev        == ses.ev[l]
More      == l <= Len(ses.ev)
CellOf(c) == <<c.s, c.i, c.ord>>
SeqSet(q)  == {q[i] : i \in 1..Len(q)}
GoalOf(e) == IF e.kind = "define" THEN DefineGoal
             ELSE CellsGoal({CellOf(c) : c \in SeqSet(e.cells)})
IsIn(c)   == c[1] \in SeqSet(ses.inputs)
Adv       == l' = l + 1 /\ UNCHANGED <<ses, verdict>>

\* componentwise maximum of the requested orders (zero for the definition phase)
GoalOrd(k) == IF goal.cells = {} THEN 0
              ELSE CHOOSE m \in {d[3][k] : d \in goal.cells} : \A d \in goal.cells : d[3][k] <= m
\* C12: a Hamiltonian term of order m is evaluated only for a request of order n >= m
Causal(c) == IsIn(c) => \A k \in 1..Len(c[3]) : c[3][k] <= GoalOrd(k)
\* C12: ... and at most once while no fault has happened
InputOnce(c) == (IsIn(c) /\ faults = 0) => Evals(c) = 0

ValsOK(e) == \A x \in SeqSet(e.vals) :
               /\ x.v = x.want                  \* equals the undisturbed computation (C10, C11)
               /\ Cell(CellOf(x)) = x.tag       \* and is the finished value the model knows

TPreset == More /\ Ev.t = "preset" /\ Preset(CellOf(Ev), Ev.tag) /\ Adv
TReq    == More /\ Ev.t = "req" /\ UserRequest(GoalOf(Ev)) /\ Adv
TBegin  == More /\ Ev.t = "begin" /\ Causal(CellOf(Ev)) /\ InputOnce(CellOf(Ev))
           /\ Begin(CellOf(Ev)) /\ Adv
TEnd    == More /\ Ev.t = "end" /\ stack # <<>> /\ Top = CellOf(Ev) /\ End(Ev.tag) /\ Adv
TPop    == More /\ Ev.t = "pop" /\ Ev.had = 1 /\ Discard(CellOf(Ev)) /\ Adv
TPopNone == More /\ Ev.t = "pop" /\ Ev.had = 0 /\ Cell(CellOf(Ev)) = "absent"
            /\ UNCHANGED evars /\ Adv
TInject == More /\ Ev.t = "inject" /\ Fault(Ev.exc) /\ Adv
TDetect == More /\ Ev.t = "detect" /\ (\E d \in InFlight : PendingHit(d)) /\ Adv
TFail   == More /\ Ev.t = "fail" /\ stack # <<>> /\ Top = CellOf(Ev) /\ Ev.exc = exc
           /\ Unwind /\ Adv
TRet    == More /\ Ev.t = "ret" /\ Ev.pending \in {0, -1} /\ Return /\ ValsOK(Ev) /\ Adv
TRaise  == More /\ Ev.t = "raise" /\ Ev.pending \in {0, -1} /\ Ev.exc = exc /\ Raise /\ Adv
\* a value handed out earlier is re-read: it must not have been mutated (C10)
TRecheck == More /\ Ev.t = "recheck" /\ mode = "idle"
            /\ Ev.v = ses.ev[Ev.ref].vals[Ev.k].v
            /\ UNCHANGED evars /\ Adv
\* the caller's input objects are fingerprinted again: unchanged (C10)
TInputs == More /\ Ev.t = "inputs" /\ mode = "idle" /\ Ev.fp = ses.fp0
           /\ UNCHANGED evars /\ Adv

TConsume == TPreset \/ TReq \/ TBegin \/ TEnd \/ TPop \/ TPopNone \/ TInject \/ TDetect \/ TFail \/ TRet \/ TRaise
            \/ TRecheck \/ TInputs

\* first failing clause for the event nothing can consume
Diagnose ==
  LET t == Ev.t IN
  CASE t = "req"    -> IF mode # "idle" THEN "request_while_busy" ELSE "request_not_allowed"
    [] t = "begin"  -> IF ~Causal(CellOf(Ev)) THEN "C12.noncausal_input_evaluation"
                       ELSE IF ~InputOnce(CellOf(Ev)) THEN "C12.input_evaluated_twice"
                       ELSE IF Cell(CellOf(Ev)) = "pending" THEN "C19.evaluation_of_inflight_cell"
                       ELSE IF Done(Cell(CellOf(Ev))) THEN "C19.reevaluation_of_cached_cell"
                       ELSE IF mode # "running" THEN "evaluation_outside_request"
                       ELSE "C12.evaluation_not_requested"
    [] t = "end"    -> IF stack = <<>> \/ Top # CellOf(Ev) THEN "end_of_non_innermost_evaluation"
                       ELSE "end_not_allowed"
    [] t = "pop"    -> IF Ev.had = 1 THEN "delete_of_cell_model_has_not_cached"
                       ELSE "delete_missed_cell_model_has_cached"
    [] t = "inject" -> "fault_outside_evaluation"
    [] t = "detect" -> "C19.spurious_recursion_or_uninjected_exception"
    [] t = "fail"   -> IF stack = <<>> \/ Top # CellOf(Ev) THEN "unwind_of_non_innermost_evaluation"
                       ELSE IF Ev.exc # exc THEN "C11.exception_class_changed"
                       ELSE "unwind_not_allowed"
    [] t = "ret"    -> IF Ev.pending \notin {0, -1} THEN "C11.inflight_marker_left_behind"
                       ELSE IF ~(mode = "running" /\ stack = <<>> /\ GoalDone(goal))
                            THEN "C10.return_of_unfinished_value"
                       ELSE "C10.value_differs_from_undisturbed_computation"
    [] t = "raise"  -> IF Ev.pending \notin {0, -1} THEN "C11.inflight_marker_left_behind"
                       ELSE IF Ev.exc # exc THEN "C11.exception_class_changed"
                       ELSE "C11.raise_not_explained"
    [] t = "preset" -> "preset_of_cached_cell"
    [] t = "recheck"-> "C10.returned_value_mutated"
    [] t = "inputs" -> "C10.input_objects_mutated"
    [] OTHER        -> "unknown_event"

TInit == /\ EInit
         /\ ses \in AllSessions
         /\ l = 1 /\ verdict = "running"

TReject == /\ More /\ verdict = "running" /\ ~ENABLED TConsume
           /\ PrintT(<<"REJECT", ses.sid, l, Ev.t, Diagnose>>)
           /\ verdict' = "rejected"
           /\ UNCHANGED <<evars, ses, l>>

TAccept == /\ ~More /\ verdict = "running"
           /\ PrintT(<<"ACCEPT", ses.sid, l - 1, IF mode = "idle" THEN "idle" ELSE "truncated">>)
           /\ verdict' = "accepted"
           /\ UNCHANGED <<evars, ses, l>>

TNext == (verdict = "running" /\ TConsume) \/ TReject \/ TAccept
TSpec == TInit /\ [][TNext]_tvars
=============================================================================
