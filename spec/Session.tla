------------------------------- MODULE Session -------------------------------
(***************************************************************************)
(* The environment of one block-diagonalisation session: which index       *)
(* expressions a user may request on the three returned series, and in     *)
(* which order.  TLC enumerates (exhaustively, or by -simulate) the        *)
(* behaviours of this specification; each behaviour -- a schedule of       *)
(* requests with repetitions, slices and interleaved second computations   *)
(* built from the same input objects -- is replayed into the real code by  *)
(* the harness (Mode B) and the recorded trace is validated against        *)
(* Engine.tla (Mode C).                                                    *)
(*                                                                         *)
(* A request is <<computation, output, i, j, n, kind>>: computation 0/1,   *)
(* output 0 = H_tilde, 1 = U, 2 = U-dagger; block pair (i, j); order n;    *)
(* kind 0 = the single element, 1 = the slice [: n + 1] of that order      *)
(* dimension.  With K parameters the harness spreads n over the order      *)
(* components (all multi-orders of total order n, first in the canonical   *)
(* sequence), see engine_run.concretise.                                   *)
(***************************************************************************)
EXTENDS Integers, Sequences, FiniteSets, TLC

CONSTANTS NB,         \* number of blocks
          Orders,     \* set of orders that may be requested
          Pairs,      \* set of block pairs, encoded as i * NB + j
          Kinds,      \* subset of {0, 1}
          Comps,      \* subset of {0, 1}: how many computations share the inputs
          L           \* schedule length

VARIABLES hist

Alphabet == {<<c, o, p \div NB, p % NB, n, k>> : c \in Comps, o \in 0..2, p \in Pairs, n \in Orders, k \in Kinds}

Init == hist = <<>>
Request(r) == /\ Len(hist) < L
              /\ hist' = Append(hist, r)
Next == \E r \in Alphabet : Request(r)
Spec == Init /\ [][Next]_hist

RECURSIVE Flat(_)
Flat(s) == IF s = <<>> THEN <<>> ELSE Head(s) \o Flat(Tail(s))

\* every complete schedule is handed to the harness
Emit == (Len(hist) = L) => PrintT(<<"SCHED">> \o Flat(hist))
NumSchedules == Cardinality(Alphabet)
=============================================================================
