CONSTANT P = 46199
CONSTANT MaxN = 2
CONSTANT Mid = 1
CONSTANT Hermitian = FALSE
INIT CInit
NEXT CNext
CHECK_DEADLOCK FALSE
INVARIANT InvResult
INVARIANT InvGuard
INVARIANT InvKnownIsTruth
INVARIANT InvNoDoubleFetch
