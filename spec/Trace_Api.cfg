INIT AInit
NEXT ANext
CHECK_DEADLOCK FALSE
