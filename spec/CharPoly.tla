------------------------------ MODULE CharPoly ------------------------------
(***************************************************************************)
(* Characteristic polynomials of matrices whose entries are truncated      *)
(* power series (Faddeev-LeVerrier), an oracle for spectra that never      *)
(* looks at the transformation U.                                          *)
(*                                                                         *)
(* A matrix series A is a function ords -> d x d matrix, ords a down-      *)
(* closed set of multi-orders; a scalar series is a function ords -> F.    *)
(* det(x - A(lambda)) = sum_j c_j(lambda) x^j with c_d = 1.  The           *)
(* coefficient of lambda^n in c_j depends only on A_m with m <= n, so      *)
(* agreement on all of ords decides agreement for EVERY truncation order.  *)
(***************************************************************************)
EXTENDS PowerSeries

SOne(ords)  == TLCEval([n \in ords |-> IF OTotal(n) = 0 THEN FOne ELSE FZ])
SZero(ords) == TLCEval([n \in ords |-> FZ])
SAdd(x, y)  == LET a == x b == y IN TLCEval([n \in DOMAIN a |-> FAdd(a[n], b[n])])
SScale(s, x) == LET a == x t == s IN TLCEval([n \in DOMAIN a |-> FMul(t, a[n])])

RECURSIVE SMulAcc(_, _, _, _, _)
SMulAcc(a, b, n, box, i) == IF i = 0 THEN FZ
  ELSE FAdd(FMul(a[box[i]], b[OSub(n, box[i])]), SMulAcc(a, b, n, box, i - 1))
SMul(x, y, bx) == LET a == x b == y IN TLCEval([n \in DOMAIN a |-> SMulAcc(a, b, n, bx[n], Len(bx[n]))])

MSeriesMul(A, B, bx) == LET a == A b == B IN TLCEval([n \in DOMAIN a |-> Cauchy2B(a, b, n, bx)])
MSeriesTrace(A)  == LET a == A IN TLCEval([n \in DOMAIN a |-> Trace(a[n])])
\* A + c * Identity, c a scalar series
MSeriesAddScalar(A, c, d) == LET a == A cc == c IN
  TLCEval([n \in DOMAIN a |-> MAdd(a[n], MScale(cc[n], MId(d)))])

(* Faddeev-LeVerrier: returns <<c_0, ..., c_{d-1}>> shifted by one, i.e.   *)
(* the sequence coef with coef[j+1] = c_j for j = 0..d (coef[d+1] = 1).    *)
(* M_1 = I ; c_{d-k} = -(1/k) tr(A M_k) ; M_{k+1} = A M_k + c_{d-k} I.     *)
RECURSIVE FLStep(_, _, _, _, _, _)
FLStep(A, d, Mk, k, coef, bx) ==
  IF k > d THEN coef
  ELSE LET mk == Mk
           AM == MSeriesMul(A, mk, bx)
           c  == SScale(FNeg(FInv(FInt(k))), MSeriesTrace(AM))
       IN  FLStep(A, d, MSeriesAddScalar(AM, c, d), k + 1,
                  [coef EXCEPT ![d - k + 1] = c], bx)

CharPolyOf(A, d, bx) ==
  LET ords == DOMAIN A
      M1   == TLCEval([n \in ords |-> IF OTotal(n) = 0 THEN MId(d) ELSE MZero(d, d)])
      init == TLCEval([j \in 1..(d + 1) |-> IF j = d + 1 THEN SOne(ords) ELSE SZero(ords)])
  IN  FLStep(A, d, M1, 1, init, bx)

\* evaluate the polynomial (coefficient sequence coef, series coefficients)
\* at the scalar series e by Horner's rule
RECURSIVE Horner(_, _, _, _, _)
Horner(coef, e, j, acc, bx) ==
  LET ac == acc IN IF j = 0 THEN ac
                   ELSE Horner(coef, e, j - 1, SAdd(SMul(ac, e, bx), coef[j]), bx)
EvalPoly(coef, e, bx) == Horner(coef, e, Len(coef) - 1, coef[Len(coef)], bx)

DiagSeries(A, i) == LET a == A IN TLCEval([n \in DOMAIN a |-> a[n][i][i]])
IsRootSeries(coef, e, bx) == LET v == EvalPoly(coef, e, bx) IN \A n \in DOMAIN e : v[n] = FZ
=============================================================================
