-------------------------------- MODULE MC_Api -------------------------------
(* Mode B for C20: TLC enumerates every applicable configuration of Api!Configs *)
(* and prints it; the harness instantiates each one.                            *)
EXTENDS Api

\* ---- Mode B: hand every configuration to the harness ----------------------------
VARIABLE cfgv
EInit == cfgv \in Configs
ENext == UNCHANGED cfgv
Emit == PrintT(<<"CFG", cfgv.class, cfgv.pos, cfgv.vtype, cfgv.container, cfgv.mode>>)
=============================================================================
