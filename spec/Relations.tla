------------------------------ MODULE Relations ------------------------------
(***************************************************************************)
(* Two-run relations (C13 bookkeeping of the perturbation parameters, C15  *)
(* covariance, C14 agreement of input formats).  A session holds the       *)
(* logged outputs of run A and run B (H_tilde, U, U-dagger / U_inv as      *)
(* dense matrices in each run's block-ordered basis, one per multi-order)  *)
(* and names the relation the PROPERTY states between the two inputs; the  *)
(* corresponding relation between the outputs is computed by TLC.          *)
(*                                                                         *)
(*  scaled(c)     perturbation k multiplied by c_k:                        *)
(*                   B[n] = prod_k c_k^(n_k) * A[n]                        *)
(*  merged(g)     parameters of A identified as g says (g[k] = index of    *)
(*                the merged parameter): B[m] = sum over n with            *)
(*                merge(n) = m of A[n]                                     *)
(*  permuted(pi)  parameter k of A is parameter pi[k] of B:                *)
(*                   B[n o pi] = A[n]                                      *)
(*  subst(q)      lambda -> lambda^q:  B[q n] = A[n], other orders vanish  *)
(*  vanishing     B has an extra last parameter whose perturbation is 0:   *)
(*                   B[n,0] = A[n], B[n,j>0] = 0                           *)
(*  same          identical abstract Hamiltonian, different presentation   *)
(*  basis(T,Ti)   B's basis is A's transformed: B[n] = T A[n] Ti  (block   *)
(*                relabelling, state permutation, rotation inside a        *)
(*                degenerate level are all of this form)                   *)
(*  conj          complex conjugate Hamiltonian: B[n] = conj(A[n])         *)
(*  shift(c)      H_0 + c: only H_tilde at order zero changes, by c        *)
(*  scaleall(s)   s H (s > 0): H_tilde scales by s, U and U-dagger do not  *)
(*  dsum          H = H1 (+) H2 decoupled: B = A (+) C                     *)
(*  projection    operator_to_BlockSeries: the blocks of B are exactly     *)
(*                L_i^dagger A R_j  (A: the operator terms, R = [R_0|..],  *)
(*                L = [L_0|..] the subspace bases)                         *)
(***************************************************************************)
EXTENDS PowerSeries, TLC, Json, IOUtils

AllSessions == UNION {{S[i] : i \in 1..Len(S)} : S \in {JsonDeserialize(IOEnv.TRACE_FILE)}}
IdxOf(seq, x) == CHOOSE i \in 1..Len(seq) : seq[i] = x
HasIdx(seq, x) == \E i \in 1..Len(seq) : seq[i] = x

VARIABLES ses, l, fails
rvars == <<ses, l, fails>>

Fields == <<"Ht", "U", "Ud">>
\* value of run r ("A", "B", "C") at multi-order n for field f; zero beyond the logged orders
Val(r, f, n) == LET run == ses[r] IN
                IF HasIdx(run.ords, n) THEN run.out[IdxOf(run.ords, n)][f]
                ELSE MZero(run.d, run.d)

RECURSIVE PowF(_, _)
PowF(c, e) == IF e = 0 THEN FOne ELSE FMul(c, PowF(c, e - 1))
RECURSIVE ScaleProd(_, _, _)
ScaleProd(cs, n, k) == IF k = 0 THEN FOne ELSE FMul(PowF(cs[k], n[k]), ScaleProd(cs, n, k - 1))

MergeOrd(g, n, kb) == [j \in 1..kb |-> LET S == {i \in 1..Len(n) : g[i] = j} IN
                         IF S = {} THEN 0 ELSE
                         LET RECURSIVE Sm(_)
                             Sm(T) == IF T = {} THEN 0 ELSE LET x == CHOOSE x \in T : TRUE IN n[x] + Sm(T \ {x})
                         IN Sm(S)]
RECURSIVE MSumSet(_, _, _, _)
MSumSet(S, f, d, dummy) == IF S = {} THEN MZero(d, d)
                           ELSE LET n == CHOOSE n \in S : TRUE IN MAdd(Val("A", f, n), MSumSet(S \ {n}, f, d, dummy))

DirectSum(X, Y) ==
  LET a == Len(X) b == Len(Y) IN
  TLCEval([i \in 1..(a + b) |-> TLCEval([j \in 1..(a + b) |->
     IF i <= a /\ j <= a THEN X[i][j]
     ELSE IF i > a /\ j > a THEN Y[i - a][j - a] ELSE FZ])])

\* what B must be at its order m for field f, computed from A (and C)
Expected(f, m) ==
  LET rel == ses.rel
      A   == ses["A"]
      dB  == ses["B"].d
  IN
  CASE rel.kind = "scaled"   -> MScale(ScaleProd(rel.c, m, Len(m)), Val("A", f, m))
    [] rel.kind = "merged"   -> MSumSet({A.ords[i] : i \in {i \in 1..Len(A.ords) :
                                           MergeOrd(rel.g, A.ords[i], Len(m)) = m}}, f, dB, 0)
    [] rel.kind = "permuted" -> Val("A", f, [k \in 1..Len(m) |-> m[rel.pi[k]]])
    [] rel.kind = "subst"    -> IF \A k \in 1..Len(m) : m[k] % rel.q = 0
                                THEN Val("A", f, [k \in 1..Len(m) |-> m[k] \div rel.q])
                                ELSE MZero(dB, dB)
    [] rel.kind = "vanishing"-> IF m[Len(m)] = 0 THEN Val("A", f, SubSeq(m, 1, Len(m) - 1))
                                ELSE MZero(dB, dB)
    [] rel.kind = "same"     -> Val("A", f, m)
    [] rel.kind = "basis"    -> MMul(rel.T, MMul(Val("A", f, m), rel.Ti))
    [] rel.kind = "conj"     -> MConj(Val("A", f, m))
    [] rel.kind = "shift"    -> IF f = "Ht" /\ OTotal(m) = 0
                                THEN MAdd(Val("A", f, m), MScale(rel.c, MId(dB)))
                                ELSE Val("A", f, m)
    [] rel.kind = "scaleall" -> IF f = "Ht" THEN MScale(rel.s, Val("A", f, m)) ELSE Val("A", f, m)
    [] rel.kind = "dsum"     -> DirectSum(Val("A", f, m), Val("C", f, m))
    [] rel.kind = "projection" -> MMul(MAdj(rel.L), MMul(Val("A", f, m), rel.R))

RInit == ses \in AllSessions /\ l = 1 /\ fails = {}
\* one step per order of run B
RStep == /\ l <= Len(ses["B"].ords)
         /\ LET m == ses["B"].ords[l] IN
            fails' = fails \cup {<<ses.prop \o "." \o ses.rel.kind \o "." \o Fields[q], l>> :
                                  q \in {q \in 1..3 : Val("B", Fields[q], m) # Expected(Fields[q], m)}}
         /\ l' = l + 1 /\ ses' = ses
RDone == /\ l = Len(ses["B"].ords) + 1
         /\ \A f \in fails : PrintT(<<"FAIL", ses.sid, f[1], f[2]>>)
         /\ PrintT(<<"DONE", ses.sid, Cardinality(fails)>>)
         /\ l' = l + 1 /\ UNCHANGED <<ses, fails>>
RNext == RStep \/ RDone
=============================================================================
