------------------------------- MODULE Cauchy -------------------------------
(***************************************************************************)
(* cauchy_dot_product (series.py:283-448).                                 *)
(*                                                                         *)
(* The definition is in CauchyDef.tla.  This module is the algorithm,      *)
(*           one action per iteration of the loop in        *)
(* product_by_order, for a single binary product cell, over abstract       *)
(* factor cells that are  "absent" (not yet evaluated), "zero", "one" or   *)
(* "val" with a hidden truth (what evaluating an absent cell gives).       *)
(* TLC explores every sentinel pattern and shows that the lazy rule        *)
(*   "skip the term when either factor cell is KNOWN zero; otherwise       *)
(*    evaluate the cheaper side first and skip if it turns out zero"       *)
(* computes the definition and never evaluates a cell whose complementary  *)
(* cell is known to be zero.                                               *)
(***************************************************************************)
EXTENDS CauchyDef

-----------------------------------------------------------------------------
(* PART 2: product_by_order for ONE cell (start, end, n) of first @ second, *)
(* single parameter, orders 0..n, `mid` intermediate blocks.               *)
CONSTANTS MaxN, Mid, Hermitian

VARIABLES known1, known2,   \* what the caches of the factors say: cell -> "absent"|"zero"|"one"|"val"
          truth1, truth2,   \* what evaluating the cell gives: "zero"|"one"|"val"
          it,               \* loop position: index into the iteration sequence
          acc,              \* set of accumulated terms <<k, m>> (with multiplicity 1)
          fetchlog          \* sequence of <<factor, k, m>> evaluations performed

cvars == <<known1, known2, truth1, truth2, it, acc, fetchlog>>

Iters == [q \in 1..(Mid * (MaxN + 1)) |-> <<(q - 1) \div (MaxN + 1), (q - 1) % (MaxN + 1)>>]  \* <<k, m>>
Tags  == {"zero", "one", "val"}
CellsF == (0..(Mid - 1)) \X (0..MaxN)

CInit ==
  /\ truth1 \in [CellsF -> Tags] /\ truth2 \in [CellsF -> Tags]
  /\ known1 \in [CellsF -> Tags \cup {"absent"}] /\ known2 \in [CellsF -> Tags \cup {"absent"}]
  /\ \A c \in CellsF : (known1[c] # "absent" => known1[c] = truth1[c])
                    /\ (known2[c] # "absent" => known2[c] = truth2[c])
  /\ it = 1 /\ acc = {} /\ fetchlog = <<>>

Cost(m) == (m + 1) * (m + 1)

\* one loop iteration (series.py:406-446); m = order of the first factor
Iterate ==
  /\ it <= Len(Iters)
  /\ LET k  == Iters[it][1]
         m  == Iters[it][2]
         c1 == <<k, m>>
         c2 == <<k, MaxN - m>>
         firstFirst == Cost(m) <= Cost(MaxN - m)
     IN
     IF Hermitian /\ m > MaxN - m
     THEN UNCHANGED <<known1, known2, acc, fetchlog>>          \* hermitian half-sum cut
     ELSE IF known1[c1] = "zero" \/ known2[c2] = "zero"
     THEN UNCHANGED <<known1, known2, acc, fetchlog>>          \* known zero: term skipped, nothing evaluated
     ELSE IF firstFirst
     THEN /\ known1' = [known1 EXCEPT ![c1] = truth1[c1]]
          /\ IF truth1[c1] = "zero"
             THEN /\ known2' = known2
                  /\ fetchlog' = fetchlog \o (IF known1[c1] = "absent" THEN << <<1, k, m, known2[c2]>> >> ELSE <<>>)
                  /\ acc' = acc
             ELSE /\ known2' = [known2 EXCEPT ![c2] = truth2[c2]]
                  /\ fetchlog' = fetchlog \o (IF known1[c1] = "absent" THEN << <<1, k, m, known2[c2]>> >> ELSE <<>>)
                                          \o (IF known2[c2] = "absent" THEN << <<2, k, MaxN - m, truth1[c1]>> >> ELSE <<>>)
                  /\ acc' = IF truth2[c2] = "zero" THEN acc ELSE acc \cup {c1}
     ELSE /\ known2' = [known2 EXCEPT ![c2] = truth2[c2]]
          /\ IF truth2[c2] = "zero"
             THEN /\ known1' = known1
                  /\ fetchlog' = fetchlog \o (IF known2[c2] = "absent" THEN << <<2, k, MaxN - m, known1[c1]>> >> ELSE <<>>)
                  /\ acc' = acc
             ELSE /\ known1' = [known1 EXCEPT ![c1] = truth1[c1]]
                  /\ fetchlog' = fetchlog \o (IF known2[c2] = "absent" THEN << <<2, k, MaxN - m, known1[c1]>> >> ELSE <<>>)
                                          \o (IF known1[c1] = "absent" THEN << <<1, k, m, truth2[c2]>> >> ELSE <<>>)
                  /\ acc' = IF truth1[c1] = "zero" THEN acc ELSE acc \cup {c1}
  /\ it' = it + 1
  /\ UNCHANGED <<truth1, truth2>>

CNext == Iterate
CSpec == CInit /\ [][CNext]_cvars

\* the terms of the definition: both factor cells non-zero
DefTerms == {c \in CellsF : truth1[c] # "zero" /\ truth2[<<c[1], MaxN - c[2]>>] # "zero"}
\* with the hermitian half-sum each accumulated term with m < n - m also stands
\* for its mirror image
Mirror(S) == S \cup {<<c[1], MaxN - c[2]>> : c \in S}

\* at the end of the loop the accumulated terms are exactly the definition's
InvResult == it > Len(Iters) =>
               IF Hermitian THEN {c \in DefTerms : c[2] <= MaxN - c[2]} = acc
               ELSE acc = DefTerms
\* a factor cell is evaluated only if the complementary cell was not known
\* to be zero at that moment -- checked on the log at every step
InvGuard == \A q \in 1..Len(fetchlog) : fetchlog[q][4] # "zero"
\* the caches only ever learn the truth
InvKnownIsTruth == \A c \in CellsF : (known1[c] # "absent" => known1[c] = truth1[c])
                                  /\ (known2[c] # "absent" => known2[c] = truth2[c])
\* never more evaluations than cells, none twice
InvNoDoubleFetch == \A p, q \in 1..Len(fetchlog) : p # q => SubSeq(fetchlog[p], 1, 3) # SubSeq(fetchlog[q], 1, 3)
=============================================================================
