----------------------------- MODULE Trace_Cauchy ----------------------------
(***************************************************************************)
(* C18: trace validation of cauchy_dot_product.  A session drives a real   *)
(* product of 2..4 harness-built factor series (rectangular block grids,   *)
(* 1..3 parameters, zero / one sentinels) through a request schedule.      *)
(* On top of the Engine protocol (Trace_Engine) TLC checks                 *)
(*   values  every finished product cell (the final product and the        *)
(*           intermediate ones the n-ary product builds) and every value   *)
(*           returned to the user equals CauchyDef!ChainDef computed from  *)
(*           the factor tables; with hermitian=True nothing changes;       *)
(*   guard   a factor cell is evaluated from inside a product cell only if *)
(*           the complementary cell of the other factor is not known to be *)
(*           zero at that moment (the model's cache says so).              *)
(***************************************************************************)
EXTENDS Trace_Engine, CauchyDef

VARIABLE defs     \* defs[a]: value table of the product of the first a factors
cvars == <<tvars, defs>>

NF == Len(ses.chain)
NO == Len(ses.ords)
PosOf(n) == CHOOSE q \in 1..NO : ses.ords[q] = n
\* which product (number of factors) a label denotes; 0 if it is not a product
ProdNo(lbl) == IF \E a \in 2..NF : ses.prods[a - 1] = lbl
               THEN CHOOSE a \in 2..NF : ses.prods[a - 1] = lbl ELSE 0
FirstLbl(a)  == IF a = 2 THEN ses.chain[1].label ELSE ses.prods[a - 2]
SecondLbl(a) == ses.chain[a].label
Blk(c, q)    == c[2][q]                       \* block coordinates of a cell (0-based)
NB2(c)       == SubSeq(c[2], 1, 2)

CInit == /\ TInit
         /\ defs = LET sp == Splits(ses.ords) IN
                   [a \in 2..Len(ses.chain) |-> ChainDef(ses.chain, a, Len(ses.ords), sp)]

\* ---- guard -----------------------------------------------------------------
FactorGuardOK(child) ==
  IF stack = <<>> THEN TRUE ELSE
  LET a == ProdNo(Top[1]) IN
  IF a = 0 THEN TRUE
  ELSE LET i == Blk(Top, 1) j == Blk(Top, 2) n == Top[3] IN
       IF child[1] = FirstLbl(a) /\ child[1] # Top[1]
       THEN LET k == Blk(child, 2) q == OSub(n, child[3])
            IN Cell(<<SecondLbl(a), <<k, j>> \o q, q>>) # "zero"
       ELSE IF child[1] = SecondLbl(a)
       THEN LET k == Blk(child, 1) q == OSub(n, child[3])
            IN Cell(<<FirstLbl(a), <<i, k>> \o q, q>>) # "zero"
       ELSE TRUE

\* ---- values -----------------------------------------------------------------
DefOf(a, c)  == defs[a][<<Blk(c, 1), Blk(c, 2), PosOf(c[3])>>]
ShapeOf(a, c) == <<ses.chain[1].rows[Blk(c, 1) + 1], ses.chain[a].cols[Blk(c, 2) + 1]>>
ObsMat(tag, v, a, c) == AsMat([tag |-> tag, v |-> v], ShapeOf(a, c)[1], ShapeOf(a, c)[2])
\* a user-supplied element product  op(x, y) = opscale * (x y)  (opscale = 1: the default matmul): the
\* product of a factors carries opscale^(a-1) -- every binary step must use the caller's operator
ProdValueOK(c, tag, v) ==
  LET a == ProdNo(c[1]) IN
  IF a = 0 THEN TRUE
  ELSE ObsMat(tag, v, a, c) = MScale(FInt(ses.opscale ^ (a - 1)), DefOf(a, c))
RetValuesOK(e) == \A x \in SeqSet(e.vals) : ProdValueOK(CellOf(x), x.tag, x.v)

CBegin == TBegin /\ FactorGuardOK(CellOf(Ev)) /\ UNCHANGED defs
CEnd   == TEnd /\ ProdValueOK(CellOf(Ev), Ev.tag, Ev.v) /\ UNCHANGED defs
CRet   == TRet /\ RetValuesOK(Ev) /\ UNCHANGED defs
COther == (TPreset \/ TReq \/ TPop \/ TPopNone \/ TInject \/ TDetect \/ TFail \/ TRaise
           \/ TRecheck \/ TInputs) /\ UNCHANGED defs
CConsume == CBegin \/ CEnd \/ CRet \/ COther

CDiagnose ==
  LET t == Ev.t IN
  IF t = "begin" /\ ENABLED TBegin /\ ~FactorGuardOK(CellOf(Ev))
    THEN "C18.factor_requested_although_complement_known_zero"
  ELSE IF t = "end" /\ ENABLED TEnd THEN "C18.product_cell_differs_from_definition"
  ELSE IF t = "ret" /\ ENABLED TRet THEN "C18.returned_value_differs_from_definition"
  ELSE Diagnose

CReject == /\ More /\ verdict = "running" /\ ~ENABLED CConsume
           /\ PrintT(<<"REJECT", ses.sid, l, Ev.t, CDiagnose>>)
           /\ verdict' = "rejected"
           /\ UNCHANGED <<evars, ses, l, defs>>
CAccept == TAccept /\ UNCHANGED defs

CNext == (verdict = "running" /\ CConsume) \/ CReject \/ CAccept
=============================================================================
