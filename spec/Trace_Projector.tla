--------------------------- MODULE Trace_Projector ---------------------------
(***************************************************************************)
(* C17: real ComplementProjector objects are driven along words over       *)
(* {T, H, C}; after every operation the object is applied from the left    *)
(* and from the right to vectors and matrices, alone and inside the        *)
(* composite  P A P  (also the composite's adjoint and right-multiply).    *)
(* TLC takes Projector!Apply for each logged operation and requires every  *)
(* logged result to be what the dense matrix of the model's current object *)
(* gives, plus shape / dtype / idempotence clauses.                        *)
(***************************************************************************)
EXTENDS Projector, Json, IOUtils

\* the file is parsed ONCE: S is bound to the parsed value by enumerating a singleton
AllSessions == UNION {{S[i] : i \in 1..Len(S)} : S \in {JsonDeserialize(IOEnv.TRACE_FILE)}}
TraceInsts == {[R |-> s.R, L |-> s.L, herm |-> (s.herm = 1), sid |-> s.sid, steps |-> s.steps,
                x |-> s.x, y |-> s.y, X |-> s.X, A |-> s.A, cplx |-> s.cplx, idem |-> s.idem]
               : s \in AllSessions}

VARIABLES l, fails
tpvars == <<pvars, l, fails>>

Step == inst.steps[l]
Obs  == Step.obs
\* the clauses for one observation record, given the dense matrix DM of the object
Bad(DM) ==
  LET A == inst.A
      PAP == MMul(DM, MMul(A, DM))
  IN {c \in {
      <<"C17.left_apply_vector",   Obs.Pv  = MMul(DM, inst.x)>>,
      <<"C17.right_apply_vector",  Obs.vP  = MMul(inst.y, DM)>>,
      <<"C17.left_apply_matrix",   Obs.PX  = MMul(DM, inst.X)>>,
      <<"C17.right_apply_matrix",  Obs.XP  = MMul(MAdj(inst.X), DM)>>,
      <<"C17.rmatvec_adjoint",     Obs.PHv = MMul(MAdj(DM), inst.x)>>,
      <<"C17.composite_apply",     Obs.PAPv = MMul(PAP, inst.x)>>,
      <<"C17.composite_adjoint",   Obs.PAPHv = MMul(MAdj(PAP), inst.x)>>,
      <<"C17.composite_right_multiply", Obs.vPAP = MMul(inst.y, PAP)>>,
      <<"C17.shape",  Obs.shape = <<D, D>> >>,
      <<"C17.dtype",  Obs.cplx = inst.cplx>>,
      <<"C17.idempotent", inst.idem = 0 \/ Obs.PPv = MMul(DM, inst.x)>>,
      \* the projector composed with ITSELF and with a composite, as operators (whether or not it is idempotent)
      <<"C17.self_composition",    Obs.PPop = MMul(DM, MMul(DM, inst.x))>>,
      <<"C17.self_composition_right", Obs.vPPop = MMul(MMul(inst.y, DM), DM)>>,
      <<"C17.self_composition_adjoint", Obs.PPHop = MMul(MAdj(MMul(DM, DM)), inst.x)>>,
      <<"C17.composite_self_composition", Obs.PPAop = MMul(DM, MMul(DM, MMul(A, inst.x)))>> } : ~c[2]}

TPInit == PInit /\ l = 1 /\ fails = {}
\* step 1 observes the freshly built object (op = "none"); later steps apply an operation
TPFirst == /\ l = 1 /\ l <= Len(inst.steps) /\ Step.op = "none"
           /\ fails' = fails \cup {<<c[1], l>> : c \in Bad(Dense(cur))}
           /\ l' = l + 1 /\ UNCHANGED pvars
TPStep == /\ l > 1 /\ l <= Len(inst.steps)
          /\ Apply(Step.op)
          /\ fails' = fails \cup {<<c[1], l>> : c \in Bad(Dense(cur'))}
          /\ l' = l + 1
TPDone == /\ l = Len(inst.steps) + 1
          /\ \A f \in fails : PrintT(<<"FAIL", inst.sid, f[1], f[2]>>)
          /\ PrintT(<<"DONE", inst.sid, Cardinality(fails)>>)
          /\ l' = l + 1 /\ UNCHANGED <<pvars, fails>>
TPNext == TPFirst \/ TPStep \/ TPDone
=============================================================================
