------------------------------ MODULE Similarity -----------------------------
(***************************************************************************)
(* The non-Hermitian problem (block_diagonalize(..., hermitian=False)):    *)
(* given H(lambda) = sum_n lambda^n H_n with H_0 = diag(E) (E complex) and *)
(* a kept/eliminated pattern that need not be symmetric, find U, Ui, Ht:   *)
(*    Ui U = U Ui = 1                      (inverse, Cauchy products)      *)
(*    (Ui H U)_R = 0 , (Ui H U)_S = Ht     (elimination)                   *)
(*    (U - Ui)_S = 0                       (gauge)                         *)
(* SolveOrderSim is the unoptimised order-by-order solution (dense, with   *)
(* explicit H_0 products).  With S_n = sum' Ui_a U_b and                   *)
(* Z_n = sum' Ui_a H_b U_c - S_n H_0  (primes: U_n, Ui_n left out):        *)
(*    U_n  = -S_n/2 on S ,  -Z_n[i,j]/(E_i - E_j) on R                     *)
(*    Ui_n = -U_n - S_n                                                    *)
(*    Ht_n = (Z_n + [H_0, U_n])_S                                          *)
(* Note the term [H_0, U_n]_S: it vanishes only if every kept pair has     *)
(* equal unperturbed energies.                                             *)
(***************************************************************************)
EXTENDS PowerSeries, BlockStruct, TLC

CONSTANT RawCfgs

VARIABLES cfg, pos, U, Ui, Ht
simvars == <<cfg, pos, U, Ui, Ht>>

Prepare(raw) ==
  [raw |-> raw, st |-> raw.st, k |-> raw.k, N |-> raw.N, H |-> raw.H, d |-> raw.st.d,
   K    |-> KeepMask(raw.st),
   ords |-> OrderSeq(raw.k, raw.N),
   bx   |-> TLCEval([n \in OrdersUpTo(raw.k, raw.N) |-> BoxSeq(n)]),
   wp   |-> WellPosed(raw.st)]

RefStepSim(c, Uf, Uif, n) ==
  LET d    == c.d
      K    == c.K
      H0   == c.H[OZero(c.k)]
      box  == {c.bx[n][i] : i \in 1..Len(c.bx[n])}
      Ux   == TLCEval([m \in box |-> IF m = n THEN MZero(d, d) ELSE Uf[m]])
      Uix  == TLCEval([m \in box |-> IF m = n THEN MZero(d, d) ELSE Uif[m]])
      S    == Cauchy2B(Uix, Ux, n, c.bx)
      Z    == MSub(Cauchy3B(Uix, c.H, Ux, n, c.bx), MMul(S, H0))
      A    == TLCEval([i \in 1..d |-> TLCEval([j \in 1..d |->
                 IF K[i][j] = 1 THEN FNeg(FHalf(S[i][j]))
                 ELSE FNeg(FDiv(Z[i][j], FSub(c.st.E[i], c.st.E[j])))])])
  IN  [U  |-> A,
       Ui |-> MNeg(MAdd(A, S)),
       Ht |-> MHad(K, MAdd(Z, Comm(H0, A)))]

RefZeroSim(c) == [U |-> MId(c.d), Ui |-> MId(c.d), Ht |-> c.H[OZero(c.k)]]

Target(c, n) == IF OTotal(n) = 0 THEN MId(c.d) ELSE MZero(c.d, c.d)
ClInvL(c, Us, Uis, n)   == Cauchy2B(Uis, Us, n, c.bx) = Target(c, n)
ClInvR(c, Us, Uis, n)   == Cauchy2B(Us, Uis, n, c.bx) = Target(c, n)
TransformedSim(c, Us, Uis, n) == Cauchy3B(Uis, c.H, Us, n, c.bx)
ClKeptSim(c, TT, Hts, n) == MHad(c.K, TT) = MHad(c.K, Hts[n])
ClElimSim(c, TT, n)      == IsZeroM(MHad(MCompl(c.K), TT))
ClHtElimZeroSim(c, Hts, n) == IsZeroM(MHad(MCompl(c.K), Hts[n]))
ClGaugeSim(c, Us, Uis, n) == IsZeroM(MHad(c.K, MSub(Us[n], Uis[n])))

AllClausesSim(c, Us, Uis, Hts, n) ==
  LET TT == TransformedSim(c, Us, Uis, n) IN
  /\ ClInvL(c, Us, Uis, n) /\ ClInvR(c, Us, Uis, n)
  /\ ClKeptSim(c, TT, Hts, n) /\ ClElimSim(c, TT, n) /\ ClHtElimZeroSim(c, Hts, n)
  /\ ClGaugeSim(c, Us, Uis, n)

InputOKSim(c) == c.H[OZero(c.k)] = H0Of(c.st)
\* every kept pair has equal unperturbed energies (then [H_0, U_S] = 0)
KeptDegenerate(c) == \A i \in 1..c.d : \A j \in 1..c.d : c.K[i][j] = 1 => c.st.E[i] = c.st.E[j]

SimInit == /\ cfg \in {Prepare(r) : r \in RawCfgs}
           /\ pos = 0 /\ U = <<>> /\ Ui = <<>> /\ Ht = <<>>

SolveOrderSim ==
  /\ pos < Len(cfg.ords) /\ cfg.wp
  /\ LET n == cfg.ords[pos + 1]
         r == IF pos = 0 THEN RefZeroSim(cfg) ELSE RefStepSim(cfg, U, Ui, n)
     IN  /\ U'  = (n :> r.U)  @@ U
         /\ Ui' = (n :> r.Ui) @@ Ui
         /\ Ht' = (n :> r.Ht) @@ Ht
  /\ pos' = pos + 1 /\ cfg' = cfg

SimNext == SolveOrderSim
InvDefiningSim == pos > 0 => AllClausesSim(cfg, U, Ui, Ht, cfg.ords[pos])
=============================================================================
