CONSTANT P = 46199
CONSTANT Insts <- TraceInsts
CONSTANT MaxWord = 100
INIT TPInit
NEXT TPNext
CHECK_DEADLOCK FALSE
INVARIANT InvDenotation
INVARIANT InvLinksConsistent
