--------------------------------- MODULE Api ---------------------------------
(***************************************************************************)
(* C20: the configuration space of ill-posed calls of block_diagonalize    *)
(* and the outcome the property demands.                                   *)
(*                                                                         *)
(* A configuration says which class of ill-posedness is embedded in an     *)
(* otherwise valid problem, where (first / middle / last block or pair),   *)
(* in which value type and container, and in which mode.  TLC enumerates   *)
(* the whole space (Configs); the harness instantiates every configuration *)
(* (Mode B) and logs what happened at definition and at each request;      *)
(* TLC then validates the log against Expected (Mode C).                   *)
(*                                                                         *)
(* "No later than the first evaluation that would need the ill-defined     *)
(* quantity":                                                              *)
(*   eager classes must be rejected by the call itself;                    *)
(*   shared_energy_blocks: the first-order U / U-dagger block of the       *)
(*       offending block pair needs 1/(E_a - E_b) when the pair is         *)
(*       coupled at first order (the harness couples it) -- that request   *)
(*       must be rejected; order zero never needs it and must be answered; *)
(*   nonhermitian_symbolic_term at multi-order m: H_tilde[i,i,m] contains  *)
(*       the term itself and must be rejected; any request at an order     *)
(*       not >= m cannot depend on it and must be answered.                *)
(* Everything else may go either way (the property leaves it open), but a  *)
(* returned value must be finite and a raised exception must be one of     *)
(* ValueError / TypeError / NotImplementedError.                           *)
(***************************************************************************)
EXTENDS Integers, Sequences, FiniteSets, TLC

Allowed == {"ValueError", "TypeError", "NotImplementedError"}

EagerClasses == {"h0_offdiagonal", "mask_on_degenerate", "not_orthonormal", "not_biorthonormal",
                 "asymmetric_mask", "exclusive_indices_and_vectors", "exclusive_solver_and_fd",
                 "pairs_in_hermitian_mode"}
LazyClasses  == {"shared_energy_blocks", "nonhermitian_symbolic_term"}
Classes      == EagerClasses \cup LazyClasses \cup {"wellposed"}
Positions    == {"first", "middle", "last"}
VTypes       == {"dense", "sparse", "sympy"}
Containers   == {"dict", "list", "blockseries", "sympy_matrix", "symkeys"}
Modes        == {"hermitian", "nonhermitian"}

Applicable(c) ==
  /\ (c.container = "sympy_matrix" => c.vtype = "sympy")
  /\ (c.class = "nonhermitian_symbolic_term" => c.container = "sympy_matrix" /\ c.mode = "hermitian")
  /\ (c.class = "asymmetric_mask" => c.mode = "hermitian")
  /\ (c.class = "pairs_in_hermitian_mode" => c.mode = "hermitian" /\ c.vtype # "sparse")
  /\ (c.class = "not_biorthonormal" => c.mode = "nonhermitian" /\ c.vtype # "sparse")
  /\ (c.class \in {"not_orthonormal", "exclusive_indices_and_vectors"} => c.vtype # "sparse")
  /\ (c.class = "exclusive_solver_and_fd" => c.vtype = "dense")

Configs == {c \in [class : Classes, pos : Positions, vtype : VTypes, container : Containers, mode : Modes] :
              Applicable(c)}

\* ---- the demanded outcome ---------------------------------------------------
OLeq(m, n) == \A i \in 1..Len(n) : m[i] <= n[i]
Total(n) == IF Len(n) = 0 THEN 0 ELSE LET RECURSIVE S(_) S(i) == IF i = 0 THEN 0 ELSE n[i] + S(i - 1) IN S(Len(n))

DefineExpected(c) == IF c.class \in EagerClasses THEN "must_raise"
                     ELSE IF c.class = "wellposed" THEN "must_return" ELSE "either"

\* r = [out, i, j, n]; c additionally carries where the defect sits: bi, bj (block pair) or m (multi-order)
RequestExpected(c, r) ==
  CASE c.class = "wellposed" -> "must_return"
    [] c.class = "shared_energy_blocks" ->
         IF Total(r.n) = 0 THEN "must_return"
         ELSE IF r.out \in {"U", "Ud"} /\ {r.i, r.j} = {c.bi, c.bj} /\ r.i # r.j /\ Total(r.n) = 1 /\ r.n = c.m
              THEN "must_raise" ELSE "either"
    [] c.class = "nonhermitian_symbolic_term" ->
         IF ~OLeq(c.m, r.n) THEN "must_return"
         ELSE IF r.out = "Ht" /\ r.i = r.j /\ r.n = c.m THEN "must_raise" ELSE "either"
    [] OTHER -> "either"

=============================================================================
