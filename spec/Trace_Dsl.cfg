CONSTANT P = 46199
INIT DInit
NEXT DNext
CHECK_DEADLOCK FALSE
