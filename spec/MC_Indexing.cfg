CONSTANT Fin <- Fin23
CONSTANT NInf = 1
INIT Init
NEXT Next
CHECK_DEADLOCK FALSE
INVARIANT InvSize
INVARIANT InvInRange
INVARIANT InvAxiswise
INVARIANT InvScalar
INVARIANT InvOrders
