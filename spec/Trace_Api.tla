------------------------------ MODULE Trace_Api ------------------------------
(* Mode C for C20: the logged outcome of the definition and of every request   *)
(* of one configuration is judged against Api!DefineExpected / RequestExpected. *)
EXTENDS Api, Json, IOUtils

\* ---- Mode C: validation of the logged outcomes --------------------------------
AllSessions == UNION {{S[i] : i \in 1..Len(S)} : S \in {JsonDeserialize(IOEnv.TRACE_FILE)}}

VARIABLES ses, l, fails
avars == <<ses, l, fails>>

Judge(expected, o) ==
  \* o = [kind |-> "ret" | "raise", cls, finite]
  {x \in {
     <<"C20.must_reject_but_answered", ~(expected = "must_raise" /\ o.kind = "ret")>>,
     <<"C20.wellposed_part_rejected",  ~(expected = "must_return" /\ o.kind = "raise")>>,
     <<"C20.wrong_exception_class",    ~(o.kind = "raise" /\ o.cls \notin Allowed /\ expected # "must_return")>>,
     <<"C20.nonfinite_value_returned", ~(o.kind = "ret" /\ o.finite = 0)>> } : ~x[2]}

AInit == ses \in AllSessions /\ l = 0 /\ fails = {}
\* step 0 is the definition, steps 1.. are the requests (none if the definition raised)
ADefine == /\ l = 0
           /\ fails' = fails \cup {<<x[1], 0>> : x \in Judge(DefineExpected(ses.cfg), ses.define)}
           /\ l' = 1 /\ ses' = ses
ARequest == /\ l >= 1 /\ l <= Len(ses.reqs)
            /\ fails' = fails \cup {<<x[1], l>> : x \in Judge(RequestExpected(ses.cfg, ses.reqs[l].r), ses.reqs[l].o)}
            /\ l' = l + 1 /\ ses' = ses
ADone == /\ l = Len(ses.reqs) + 1
         /\ \A f \in fails : PrintT(<<"FAIL", ses.sid, f[1], f[2]>>)
         /\ PrintT(<<"DONE", ses.sid, Cardinality(fails)>>)
         /\ l' = l + 1 /\ UNCHANGED <<ses, fails>>
ANext == ADefine \/ ARequest \/ ADone

=============================================================================
