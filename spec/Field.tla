------------------------------- MODULE Field -------------------------------
(***************************************************************************)
(* Exact arithmetic in GF(P^2) = GF(P)[i],  P a prime with P = 3 (mod 4),  *)
(* so that x^2+1 is irreducible and complex conjugation is the Frobenius   *)
(* map.  An element is a pair <<re, im>> with 0 <= re, im < P.             *)
(* (P-1)^2 < 2^31 is required: TLC integers are 32 bit and TLC raises an   *)
(* error on overflow, so every product is reduced before it is added.      *)
(*                                                                         *)
(* Every quantity pymablock computes lives in Z[i][1/2, 1/(E_a - E_b)];    *)
(* reduction mod P is a ring homomorphism from that ring whenever P does   *)
(* not divide 2 or an energy gap.  Identities over Q(i) therefore hold in  *)
(* the image; a discrepancy survives unless P divides its numerator.       *)
(***************************************************************************)
EXTENDS Integers

CONSTANT P

M(x) == x % P          \* never write  a % P + b  (SANY precedence trap)

FZ   == <<0, 0>>
FOne == <<1, 0>>
FI   == <<0, 1>>

IsF(a) == /\ a[1] \in 0..(P-1) /\ a[2] \in 0..(P-1)

FAdd(a, b) == <<M(a[1] + b[1]), M(a[2] + b[2])>>
FNeg(a)    == <<M(P - a[1]), M(P - a[2])>>
FSub(a, b) == <<M(a[1] + P - b[1]), M(a[2] + P - b[2])>>
FMul(a, b) == <<M(M(a[1] * b[1]) + P - M(a[2] * b[2])),
                M(M(a[1] * b[2]) + M(a[2] * b[1]))>>
FConj(a)   == <<a[1], M(P - a[2])>>
FInt(n)    == <<M(M(n) + P), 0>>            \* integer (possibly negative) -> field

RECURSIVE PowP(_, _)
PowP(x, e) == IF e = 0 THEN 1
              ELSE LET h  == PowP(x, e \div 2)
                       hh == M(h * h)
                   IN  IF e % 2 = 1 THEN M(hh * x) ELSE hh

InvP(x) == PowP(x, P - 2)                    \* Fermat inverse in GF(P); InvP(0) = 0

\* 1/a = conj(a) / (re^2 + im^2).  FInv(FZ) = FZ: callers must test for zero
\* first; ill-posedness is a computed predicate (BlockStruct!WellPosed), never
\* silently divided through.
FInv(a) == LET ni == InvP(M(M(a[1] * a[1]) + M(a[2] * a[2])))
           IN  <<M(a[1] * ni), M(M(P - a[2]) * ni)>>
FDiv(a, b) == FMul(a, FInv(b))

Half    == <<(P + 1) \div 2, 0>>
FHalf(a) == FMul(Half, a)
FScaleInt(n, a) == FMul(FInt(n), a)
FDivInt(a, n)   == FMul(a, FInv(FInt(n)))

\* sum of f[lo..hi]
RECURSIVE SumF(_, _, _)
SumF(f, lo, hi) == IF lo > hi THEN FZ ELSE FAdd(f[lo], SumF(f, lo + 1, hi))
=============================================================================
