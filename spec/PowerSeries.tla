----------------------------- MODULE PowerSeries ----------------------------
(***************************************************************************)
(* Truncated multivariate power series with matrix coefficients: a series  *)
(* is a function from a down-closed set of multi-orders to matrices.       *)
(* THE Cauchy product, as the definition states it, with no shortcuts.     *)
(***************************************************************************)
EXTENDS Mat, MultiOrder

\* sum_{m <= n} A[m] B[n-m]        (A: r x q, B: q x c)
RECURSIVE CauchyAcc(_, _, _, _, _)
CauchyAcc(A, B, n, box, i) ==
  IF i = 0 THEN MZero(Rows(A[n]), Cols(B[n]))
  ELSE MAdd(MMul(A[box[i]], B[OSub(n, box[i])]), CauchyAcc(A, B, n, box, i - 1))
Cauchy2(A, B, n) == LET box == BoxSeq(n) a == A b == B IN CauchyAcc(a, b, n, box, Len(box))

\* The same with precomputed boxes: bx is a function  order -> BoxSeq(order)
\* (TLC re-evaluates BoxSeq at every use otherwise).
Cauchy2B(A, B, n, bx) == LET a == A b == B IN CauchyAcc(a, b, n, bx[n], Len(bx[n]))
Cauchy3B(A, B, C, n, bx) ==
  LET a == A b == B c == C
      AB == TLCEval([m \in {bx[n][i] : i \in 1..Len(bx[n])} |-> Cauchy2B(a, b, m, bx)])
  IN  Cauchy2B(AB, c, n, bx)

\* series product as a series on the orders ords (a set)
CauchySeries(A, B, ords) == LET a == A b == B IN TLCEval([n \in ords |-> Cauchy2(a, b, n)])
\* triple product  sum_{a+b+c=n} A[a] B[b] C[c]  (left associated)
Cauchy3(A, B, C, n) == LET AB == TLCEval([m \in OBox(n) |-> Cauchy2(A, B, m)])
                       IN  Cauchy2(AB, C, n)

SeriesAdj(A)  == LET a == A IN TLCEval([n \in DOMAIN a |-> MAdj(a[n])])
SeriesZero(ords, r, c) == TLCEval([n \in ords |-> MZero(r, c)])
SeriesId(ords, d) == TLCEval([n \in ords |-> IF OTotal(n) = 0 THEN MId(d) ELSE MZero(d, d)])
=============================================================================
