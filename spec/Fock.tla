--------------------------------- MODULE Fock ---------------------------------
(***************************************************************************)
(* C08 / C07: the operator algebra that NumberOrderedForm represents.      *)
(*                                                                         *)
(* Modes: bosons, ladder operators (unitary shifts on an integer lattice), *)
(* spin-1/2 (sigma_-) and fermions (Jordan-Wigner, in the order the modes  *)
(* are listed).  A mode is [kind, lo, hi]: the occupations lo..hi that     *)
(* are represented (bosons 0..C, ladders -C..C, spins / fermions 0..1).    *)
(* Operators act on vectors over the product basis |n_1 .. n_m).           *)
(*                                                                         *)
(* Bosons are represented in the UNNORMALISED occupation basis             *)
(*      |n) = sqrt(n!) |n> :   a |n) = n |n-1) ,  a^dagger |n) = |n+1)     *)
(* which is related to the orthonormal one by a diagonal similarity, hence *)
(* an algebra isomorphism: every identity between sums and products of     *)
(* operators holds in one basis iff it holds in the other, and all matrix  *)
(* elements are rational (no square roots in GF(P)).  The adjoint is       *)
(*      (A^dagger)(m, n) = conj(A(n, m)) * g(n) / g(m) ,  g(n) = prod n_i! *)
(*                                                                         *)
(* Meaning of a number-ordered term with powers p (negative = creation)    *)
(* and coefficient f(N):                                                   *)
(*     prod_{i ascending} (a_i^dagger)^(-p_i)  f(N)  prod_{i descending}   *)
(*     a_i^(p_i)                                                           *)
(* (this is what NumberOrderedForm.as_expr builds).                        *)
(* Truncation: operators are compared only on basis states far enough from*)
(* the edges (margin), where the truncated action is the exact one.        *)
(***************************************************************************)
EXTENDS Field, Sequences, FiniteSets, TLC

\* ctx = [modes, states (sequence of occupation tuples, row-major), strides]
D(ctx)      == Len(ctx.states)
NModes(ctx) == Len(ctx.modes)
ZeroV(ctx)  == TLCEval([q \in 1..D(ctx) |-> FZ])
UnitV(ctx, s) == TLCEval([q \in 1..D(ctx) |-> IF q = s THEN FOne ELSE FZ])
VAdd(u, v)  == LET a == u b == v IN TLCEval([q \in 1..Len(a) |-> FAdd(a[q], b[q])])
VScale(c, v) == LET a == v k == c IN TLCEval([q \in 1..Len(a) |-> FMul(k, a[q])])

\* Jordan-Wigner sign of fermion mode i on state n
RECURSIVE JWCount(_, _, _)
JWCount(ctx, n, i) == IF i = 0 THEN 0
                      ELSE (IF ctx.modes[i].kind = "fermion" THEN n[i] ELSE 0) + JWCount(ctx, n, i - 1)
Sign(ctx, n, i) == IF ctx.modes[i].kind = "fermion" /\ JWCount(ctx, n, i - 1) % 2 = 1
                   THEN FNeg(FOne) ELSE FOne

\* lowering operator of mode i:  (a v)(n) = <n| a |n + e_i> v(n + e_i)
Lower(ctx, i, v) ==
  LET m == ctx.modes[i] st == ctx.strides[i] w == v IN
  TLCEval([q \in 1..D(ctx) |->
    LET n == ctx.states[q] IN
    IF n[i] + 1 > m.hi THEN FZ
    ELSE CASE m.kind = "boson"   -> FMul(FInt(n[i] + 1), w[q + st])
           [] m.kind = "ladder"  -> w[q + st]
           [] m.kind = "spin"    -> w[q + st]
           [] m.kind = "fermion" -> FMul(Sign(ctx, n, i), w[q + st])])
\* raising operator of mode i:  (a^dagger v)(n) = <n| a^dagger |n - e_i> v(n - e_i)
Raise(ctx, i, v) ==
  LET m == ctx.modes[i] st == ctx.strides[i] w == v IN
  TLCEval([q \in 1..D(ctx) |->
    LET n == ctx.states[q] IN
    IF n[i] - 1 < m.lo THEN FZ
    ELSE CASE m.kind = "fermion" -> FMul(Sign(ctx, n, i), w[q - st])
           [] OTHER              -> w[q - st]])
RECURSIVE LowerPow(_, _, _, _)
LowerPow(ctx, i, k, v) == IF k = 0 THEN v ELSE LowerPow(ctx, i, k - 1, Lower(ctx, i, v))
RECURSIVE RaisePow(_, _, _, _)
RaisePow(ctx, i, k, v) == IF k = 0 THEN v ELSE RaisePow(ctx, i, k - 1, Raise(ctx, i, v))
\* a function of the number operators, given by its table over the basis states
Diag(tab, v) == LET a == v IN TLCEval([q \in 1..Len(a) |-> FMul(tab[q], a[q])])
NumOp(ctx, i, v) == LET a == v IN
  TLCEval([q \in 1..D(ctx) |-> FMul(FInt(ctx.states[q][i]), a[q])])

\* ---- meaning of a NumberOrderedForm (list of terms [pw, tab]) -----------------
RECURSIVE AnnihilateDesc(_, _, _, _)    \* apply a_1^{p_1} first, ..., a_m^{p_m} last
AnnihilateDesc(ctx, pw, i, v) ==
  IF i > NModes(ctx) THEN v
  ELSE AnnihilateDesc(ctx, pw, i + 1, IF pw[i] > 0 THEN LowerPow(ctx, i, pw[i], v) ELSE v)
RECURSIVE CreateAsc(_, _, _, _)         \* apply (a_m^dagger)^{k_m} first, ..., (a_1^dagger)^{k_1} last
CreateAsc(ctx, pw, i, v) ==
  IF i = 0 THEN v
  ELSE CreateAsc(ctx, pw, i - 1, IF pw[i] < 0 THEN RaisePow(ctx, i, -pw[i], v) ELSE v)
TermApply(ctx, t, v) ==
  CreateAsc(ctx, t.pw, NModes(ctx), Diag(t.tab, AnnihilateDesc(ctx, t.pw, 1, v)))
RECURSIVE NofApplyAcc(_, _, _, _)
NofApplyAcc(ctx, terms, k, v) ==
  IF k = 0 THEN ZeroV(ctx) ELSE VAdd(TermApply(ctx, terms[k], v), NofApplyAcc(ctx, terms, k - 1, v))
NofApply(ctx, nof, v) == NofApplyAcc(ctx, nof.terms, Len(nof.terms), v)

\* ---- denotation of an expression tree (daggers already pushed to the leaves) ----
\* <<"gen", i, dag>> | <<"num", i>> | <<"scal", c>> | <<"fn", tab>> | <<"mul", <<e..>>>>
\* | <<"add", <<e..>>>> | <<"pow", e, k>>
RECURSIVE TreeApply(_, _, _)
TreeApply(ctx, e, v) ==
  CASE e[1] = "gen"  -> IF e[3] = 1 THEN Raise(ctx, e[2], v) ELSE Lower(ctx, e[2], v)
    [] e[1] = "num"  -> NumOp(ctx, e[2], v)
    [] e[1] = "scal" -> VScale(e[2], v)
    [] e[1] = "fn"   -> Diag(e[2], v)
    [] e[1] = "mul"  -> LET RECURSIVE R(_, _)
                            R(k, w) == IF k = 0 THEN w ELSE R(k - 1, TreeApply(ctx, e[2][k], w))
                        IN R(Len(e[2]), v)                   \* rightmost factor acts first
    [] e[1] = "add"  -> LET RECURSIVE A(_)
                            A(k) == IF k = 0 THEN ZeroV(ctx) ELSE VAdd(TreeApply(ctx, e[2][k], v), A(k - 1))
                        IN A(Len(e[2]))
    [] e[1] = "pow"  -> LET RECURSIVE Pw(_, _)
                            Pw(k, w) == IF k = 0 THEN w ELSE Pw(k - 1, TreeApply(ctx, e[2], w))
                        IN Pw(e[3], v)

\* ---- interior states and the adjoint weight ---------------------------------------
Interior(ctx, margin) ==
  {q \in 1..D(ctx) : \A i \in 1..NModes(ctx) :
     LET m == ctx.modes[i] n == ctx.states[q][i] IN
     CASE m.kind = "boson"  -> n + margin <= m.hi
       [] m.kind = "ladder" -> n + margin <= m.hi /\ n - margin >= m.lo
       [] OTHER -> TRUE}
RECURSIVE Fact(_)
Fact(n) == IF n <= 1 THEN 1 ELSE M(n * Fact(n - 1))
RECURSIVE GW(_, _, _)
GW(ctx, n, i) == IF i = 0 THEN 1
                 ELSE M((IF ctx.modes[i].kind = "boson" THEN Fact(n[i]) ELSE 1) * GW(ctx, n, i - 1))
G(ctx, q) == <<GW(ctx, ctx.states[q], NModes(ctx)), 0>>
=============================================================================
