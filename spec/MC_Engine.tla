------------------------------ MODULE MC_Engine ------------------------------
(***************************************************************************)
(* Mode A for the engine: a toy recurrence shaped like pymablock's `main`  *)
(* (input H, once-used deletable intermediate X, product P of lower orders *)
(* of U, outputs Ht and U), all request schedules of at most MaxRequests   *)
(* user requests (single cells and slices 0..n), every fetch order,        *)
(* deletion at any moment after use, and at most MaxFaults callback faults *)
(* of every class at every point.                                          *)
(***************************************************************************)
EXTENDS Engine

CONSTANT N

El(s, n) == <<s, <<n>>, <<n>>>>
MCElems == {El("H", n) : n \in 0..N} \cup {El("U", n) : n \in 0..N} \cup {El("Ht", n) : n \in 0..N}
           \cup {El(s, n) : s \in {"X", "V", "W", "P"}, n \in 1..N}
MCOutputs   == {El("Ht", n) : n \in 0..N} \cup {El("U", n) : n \in 0..N}
MCInputs    == {El("H", n) : n \in 0..N}
MCDeletable == {El("X", n) : n \in 1..N}

MCDeps(e) ==
  LET s == e[1] n == e[2][1] IN
  CASE s = "H"  -> {}
    [] s = "U"  -> IF n = 0 THEN {} ELSE {El("V", n), El("W", n)}
    [] s = "Ht" -> IF n = 0 THEN {El("H", 0)} ELSE {El("H", n), El("P", n), El("V", n)}
    [] s = "X"  -> {El("H", n), El("P", n)} \cup {El("H", m) : m \in 1..(n - 1)}
    [] s = "V"  -> {El("X", n)}
    [] s = "W"  -> {El("P", n)}
    [] s = "P"  -> {El("U", m) : m \in 1..(n - 1)}

MCTagOf(e) == IF e \in {El("P", 1), El("W", 1)} THEN "zero"
              ELSE IF e = El("U", 0) THEN "one" ELSE "val"

MCIsOutput(e)    == e \in MCOutputs
MCIsInput(e)     == e \in MCInputs
MCIsDeletable(e) == e \in MCDeletable
MCMayFetch(p, d, F) == d \in MCDeps(p) \ F
MCComplete(p, F) == F = MCDeps(p)
MCUsed(F, d)     == d \in F
MCTags(e)        == {MCTagOf(e)}

\* user-visible index expressions: one cell, or the slice [:n+1] of a series
Goals == {CellsGoal({e}) : e \in MCOutputs}
         \cup {CellsGoal({El(s, m) : m \in 0..n}) : s \in {"Ht", "U"}, n \in 1..N}

ENext ==
  \/ \E g \in Goals : UserRequest(g)
  \/ \E d \in MCElems : Hit(d) \/ Begin(d) \/ PendingHit(d) \/ Discard(d)
  \/ \E t \in {"zero", "one", "val"} : End(t)
  \/ Return
  \/ \E cls \in ExcClasses : Fault(cls)
  \/ Unwind \/ Raise

ESpec == EInit /\ [][ENext]_evars
EFair == ESpec /\ WF_evars(ENext)

\* RuntimeError by recursion detection never happens for an acyclic program
InvNoSpuriousRecursion == (exc = "RuntimeError") => faults > 0
\* causality (C12): whatever is in flight has an order <= the largest
\* requested order
GoalMax == IF goal.cells = {} THEN 0
           ELSE CHOOSE m \in {d[3][1] : d \in goal.cells} : \A d \in goal.cells : d[3][1] <= m
InvCausal == \A e \in InFlight : e[3][1] <= GoalMax
=============================================================================
