------------------------------- MODULE Engine -------------------------------
(***************************************************************************)
(* The lazy, memoising, self-deleting evaluation engine of pymablock:      *)
(* BlockSeries.__getitem__ / pop (series.py) as driven by compiled series  *)
(* definitions and Cauchy products (algorithm_parsing.py).                 *)
(*                                                                         *)
(* One action per critical section of the code:                            *)
(*   UserRequest(g) the public call enters __getitem__ (g: the cells the   *)
(*                  index expression covers; or the definition phase of    *)
(*                  block_diagonalize, which may look at order zero only)  *)
(*   Preset(d,t)   series.py:115   a series is constructed with start data *)
(*   Hit(d)        a lookup finds a finished value                         *)
(*   Begin(d)      series.py:188   data[index] = PENDING ; call eval       *)
(*   End(t)        series.py:190   data[index] = value (sentinel tag t)    *)
(*   PendingHit(d) series.py:199   data[index] is PENDING -> RuntimeError  *)
(*   Discard(d)    algorithm_parsing.py:825  del_: series.pop(index)       *)
(*   Fault(cls)    a user callback (Hamiltonian eval, solve_sylvester,     *)
(*                 operator) raises cls inside the innermost evaluation    *)
(*   Unwind        series.py:191-198  except: data.pop(index); re-raise    *)
(*                 (RuntimeError is re-wrapped as RuntimeError)            *)
(*   Return / Raise  the two outcomes of the public call                   *)
(*   Refuse(cls)   an invalid index expression is rejected up front        *)
(*                                                                         *)
(* The engine is deliberately permissive about evaluation ORDER (any true  *)
(* dependency may be fetched next, deletable terms may be deleted at any   *)
(* time after their use) and strict about PROTOCOL: which cells may be     *)
(* pending, what an exception leaves behind, how often cells are evaluated.*)
(*                                                                         *)
(* A cell is a tuple <<series, index, order>>.  Cache cells hold           *)
(*   "absent" | "pending" | "zero" | "one" | "val"                         *)
(* -- the sentinel tags are part of the abstract state because membership  *)
(* of a known zero steers Cauchy products.  The cache is a function with a *)
(* growing domain; a cell outside it is absent (a Python dict).            *)
(***************************************************************************)
EXTENDS Integers, Sequences, FiniteSets, TLC

CONSTANTS IsOutput(_),     \* cells the user may request
          IsInput(_),      \* cells whose evaluation is a user callback
          IsDeletable(_),  \* cells the compiled code deletes after their single use
          MayFetch(_, _, _), \* MayFetch(p, d, F): evaluating p, having obtained F, may look up d
          Complete(_, _),  \* Complete(p, F): p can finish once it has obtained the set F
          Used(_, _),      \* Used(F, d): the innermost evaluation has used d (F: what it obtained)
          TagOf(_),        \* set of tags a finished evaluation of the cell may produce
          MaxFaults, MaxRequests,
          ExcClasses       \* exception classes a callback may raise

VARIABLES cache, stack, fetched, mode, exc, evals, faults, requests, goal, outcome

evars == <<cache, stack, fetched, mode, exc, evals, faults, requests, goal, outcome>>

Done(c)  == c \in {"zero", "one", "val"}
Cell(e)  == IF e \in DOMAIN cache THEN cache[e] ELSE "absent"
Evals(e) == IF e \in DOMAIN evals THEN evals[e] ELSE 0
Store(e, x) == cache' = (e :> x) @@ cache
Top      == stack[Len(stack)]
InFlight == {stack[i] : i \in 1..Len(stack)}
OrdZero(d) == \A i \in 1..Len(d[3]) : d[3][i] = 0

NoGoal        == [kind |-> "none", cells |-> {}]
CellsGoal(S)  == [kind |-> "cells", cells |-> S]
DefineGoal    == [kind |-> "define", cells |-> {}]
InGoal(g, d)  == IF g.kind = "define" THEN OrdZero(d) ELSE d \in g.cells
GoalDone(g)   == g.kind = "define" \/ \A d \in g.cells : Done(Cell(d))

EInit ==
  /\ cache = <<>>
  /\ stack = <<>> /\ fetched = <<>>
  /\ mode = "idle" /\ exc = "none"
  /\ evals = <<>>
  /\ faults = 0 /\ requests = 0
  /\ goal = NoGoal /\ outcome = "none"

-----------------------------------------------------------------------------
Push(e) == /\ Store(e, "pending")
           /\ stack' = Append(stack, e)
           /\ fetched' = Append(fetched, {})
           /\ evals' = (e :> Evals(e) + 1) @@ evals

PopFrame == /\ stack' = SubSeq(stack, 1, Len(stack) - 1)
            /\ fetched' = IF Len(stack) = 1 THEN <<>>
                          ELSE [SubSeq(fetched, 1, Len(fetched) - 1)
                                  EXCEPT ![Len(stack) - 1] = @ \cup {Top}]

\* a series is constructed with start data: the cell is cached without evaluation
\* (series.py:115; zeroth orders pinned by series_computation)
Preset(d, t) ==
  /\ Cell(d) = "absent" /\ t \in {"zero", "one", "val"}
  /\ Store(d, t)
  /\ UNCHANGED <<stack, fetched, mode, exc, evals, faults, requests, goal, outcome>>

\* the public call enters __getitem__ (or block_diagonalize is being defined)
UserRequest(g) ==
  /\ mode = "idle" /\ requests < MaxRequests
  /\ g.kind = "define" \/ \A e \in g.cells : IsOutput(e)
  /\ requests' = requests + 1
  /\ goal' = g /\ exc' = "none" /\ outcome' = "none"
  /\ mode' = "running"
  /\ UNCHANGED <<cache, stack, fetched, evals, faults>>

\* the index expression is refused before anything is looked up
\* (series.py:169-170 argument checks, numpy's own bounds check)
Refuse(cls) ==
  /\ mode = "idle" /\ requests < MaxRequests
  /\ requests' = requests + 1
  /\ goal' = NoGoal /\ exc' = cls /\ outcome' = "raised"
  /\ UNCHANGED <<cache, stack, fetched, mode, evals, faults>>

\* what the running code may look up next: a requested cell at the top level,
\* a not yet obtained dependency inside an evaluation
Wanted(d) == IF stack = <<>> THEN InGoal(goal, d)
             ELSE MayFetch(Top, d, fetched[Len(stack)])

\* lookup finds a finished value (nested: the dependency is obtained)
Hit(d) ==
  /\ mode = "running" /\ stack # <<>> /\ Wanted(d) /\ Done(Cell(d))
  /\ fetched' = [fetched EXCEPT ![Len(stack)] = @ \cup {d}]
  /\ UNCHANGED <<cache, stack, mode, exc, evals, faults, requests, goal, outcome>>

\* lookup finds nothing: mark in flight and call eval        (series.py:185-190)
Begin(d) ==
  /\ mode = "running" /\ Wanted(d) /\ Cell(d) = "absent"
  /\ Push(d)
  /\ UNCHANGED <<mode, exc, faults, requests, goal, outcome>>

\* lookup finds the in-flight marker: recursion detected     (series.py:199-200)
PendingHit(d) ==
  /\ mode = "running" /\ Wanted(d) /\ Cell(d) = "pending"
  /\ mode' = "unwinding" /\ exc' = "RuntimeError"
  /\ UNCHANGED <<cache, stack, fetched, evals, faults, requests, goal, outcome>>

\* the innermost evaluation finishes and its value is stored (series.py:190)
End(t) ==
  /\ mode = "running" /\ stack # <<>> /\ Complete(Top, fetched[Len(stack)])
  /\ t \in TagOf(Top)
  /\ Store(Top, t)
  /\ PopFrame
  /\ UNCHANGED <<mode, exc, evals, faults, requests, goal, outcome>>

\* everything requested is finished: hand it to the user
Return ==
  /\ mode = "running" /\ stack = <<>> /\ GoalDone(goal)
  /\ mode' = "idle" /\ outcome' = "returned"
  /\ UNCHANGED <<cache, stack, fetched, exc, evals, faults, requests, goal>>

\* compiled code deletes a once-used intermediate term after using it
Discard(d) ==
  /\ mode = "running" /\ stack # <<>> /\ IsDeletable(d) /\ Used(fetched[Len(stack)], d)
  /\ Done(Cell(d))
  /\ Store(d, "absent")
  /\ UNCHANGED <<stack, fetched, mode, exc, evals, faults, requests, goal, outcome>>

\* a user callback raises inside the innermost evaluation
Fault(cls) ==
  /\ mode = "running" /\ stack # <<>> /\ faults < MaxFaults /\ cls \in ExcClasses
  /\ faults' = faults + 1
  /\ mode' = "unwinding" /\ exc' = cls
  /\ UNCHANGED <<cache, stack, fetched, evals, requests, goal, outcome>>

\* the exception propagates through one __getitem__ frame, which removes its
\* in-flight marker (series.py:191-198); at the bottom it reaches the user
Unwind ==
  /\ mode = "unwinding" /\ stack # <<>>
  /\ Store(Top, "absent")
  /\ stack' = SubSeq(stack, 1, Len(stack) - 1)
  /\ fetched' = SubSeq(fetched, 1, Len(fetched) - 1)
  /\ UNCHANGED <<mode, exc, outcome, evals, faults, requests, goal>>

Raise ==
  /\ mode = "unwinding" /\ stack = <<>>
  /\ mode' = "idle" /\ outcome' = "raised"
  /\ UNCHANGED <<cache, stack, fetched, exc, evals, faults, requests, goal>>

-----------------------------------------------------------------------------
(* Invariants (C11, C19, C12), over the cells seen so far                   *)

Cells == DOMAIN cache

TypeOK ==
  /\ \A e \in Cells : cache[e] \in {"absent", "pending", "zero", "one", "val"}
  /\ mode \in {"idle", "running", "unwinding"}
  /\ Len(fetched) = Len(stack)

\* the in-flight markers are exactly the evaluations on the stack, each once
InvPendingIsStack ==
  /\ {e \in Cells : cache[e] = "pending"} = InFlight
  /\ Cardinality(InFlight) = Len(stack)

\* control is with the user  =>  no in-flight marker anywhere (C11)
InvIdleClean == mode = "idle" => (stack = <<>> /\ \A e \in Cells : cache[e] # "pending")

\* a finished cell is never re-evaluated while it is cached (C19): Begin needs
\* "absent"; without faults and deletion every cell is evaluated at most once
InvOnceWhileCached == faults = 0 => \A e \in Cells : IsDeletable(e) \/ Evals(e) <= 1
\* user callbacks (input terms) at most once in fault-free runs (C12)
InvInputsOnce == faults = 0 => \A e \in Cells : IsInput(e) => Evals(e) <= 1
\* the exception class that reaches the user is the injected one (a
\* RuntimeError may also come from recursion detection)
InvExcClass == (mode = "idle" /\ outcome = "raised") => exc \in ExcClasses \cup {"RuntimeError"}
\* a value handed to the user is a finished one
InvReturnedDone == (mode = "idle" /\ outcome = "returned") => GoalDone(goal)

\* liveness: every request comes back to the user
EveryRequestReturns == (mode # "idle") ~> (mode = "idle")
=============================================================================
