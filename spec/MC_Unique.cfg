CONSTANT P = 3
CONSTANT Dims = {2}
CONSTANT MaxLevel = 2
INIT Init
NEXT Next
INVARIANT InvSymmetric
INVARIANT InvUniqueIffWellPosed
INVARIANT InvIllPosedWitness
INVARIANT InvGaugeNeeded
CHECK_DEADLOCK FALSE
