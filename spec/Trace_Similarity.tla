--------------------------- MODULE Trace_Similarity --------------------------
(***************************************************************************)
(* C05: trace validation of block_diagonalize(..., hermitian=False).       *)
(* Same structure as Trace_LeastAction: SolveOrderSim (the reference) is   *)
(* taken once per multi-order and every clause is evaluated on the LOGGED  *)
(* U, U_inv, H_tilde with the harness's ground-truth H:                    *)
(*   inverse_left/right, kept_equals_Htilde, eliminated_zero, gauge,       *)
(*   equality with the reference, and -- for Hermitian input -- equality   *)
(*   with the outputs of the Hermitian mode (logged in the same session).  *)
(***************************************************************************)
EXTENDS Similarity, Json, IOUtils

AllSessions == UNION {{S[i] : i \in 1..Len(S)} : S \in {JsonDeserialize(IOEnv.TRACE_FILE)}}
IdxOf(seq, x) == CHOOSE i \in 1..Len(seq) : seq[i] = x

ToSt(s) == [d |-> s.d, block |-> s.block, E |-> s.E, fdkind |-> s.fdkind,
            fdset |-> {s.fdset[i] : i \in 1..Len(s.fdset)},
            elim |-> TLCEval([b \in {s.block[i] : i \in 1..s.d} |-> s.elim[b + 1]])]
ToRaw(s) == LET os == OrderSeq(s.k, s.N)
                F(src, field) == TLCEval([n \in OrdersUpTo(s.k, s.N) |-> src[IdxOf(os, n)][field]])
            IN  [st |-> ToSt(s), k |-> s.k, N |-> s.N, sid |-> s.sid,
                 H  |-> TLCEval([n \in OrdersUpTo(s.k, s.N) |-> s.H[IdxOf(os, n)]]),
                 LU |-> F(s.out, "U"), LUi |-> F(s.out, "Ud"), LHt |-> F(s.out, "Ht"),
                 hasH |-> s.hasH,
                 HU |-> IF s.hasH = 1 THEN F(s.hout, "U") ELSE <<>>,
                 HUi |-> IF s.hasH = 1 THEN F(s.hout, "Ud") ELSE <<>>,
                 HHt |-> IF s.hasH = 1 THEN F(s.hout, "Ht") ELSE <<>>,
                 ordsLogged |-> s.ords]
TraceRaw == {ToRaw(s) : s \in AllSessions}

VARIABLES fails, phase
tsvars == <<simvars, fails, phase>>
R == cfg.raw

HermLimitOK(n) == IF R.hasH = 0 THEN TRUE
                  ELSE R.LU[n] = R.HU[n] /\ R.LUi[n] = R.HUi[n] /\ R.LHt[n] = R.HHt[n]

FailedAt(n, rU, rUi, rHt) ==
  LET c == cfg
      TT == TransformedSim(c, R.LU, R.LUi, n)
  IN {x \in {
      <<"C05.inverse_left",  ClInvL(c, R.LU, R.LUi, n)>>,
      <<"C05.inverse_right", ClInvR(c, R.LU, R.LUi, n)>>,
      <<"C05.kept_equals_Htilde", ClKeptSim(c, TT, R.LHt, n)>>,
      <<"C05.eliminated_zero",    ClElimSim(c, TT, n)>>,
      <<"C05.Htilde_eliminated_part_zero", ClHtElimZeroSim(c, R.LHt, n)>>,
      <<"C05.gauge",         ClGaugeSim(c, R.LU, R.LUi, n)>>,
      <<"C05.U_equals_reference",  R.LU[n]  = rU>>,
      <<"C05.Uinv_equals_reference", R.LUi[n] = rUi>>,
      <<"C05.Ht_equals_reference", R.LHt[n] = rHt>>,
      <<"C05.hermitian_limit", HermLimitOK(n)>> } : ~x[2]}

TInit == SimInit /\ fails = {} /\ phase = "solve"
TSolve == /\ phase = "solve" /\ pos < Len(cfg.ords)
          /\ SolveOrderSim
          /\ LET n == cfg.ords[pos + 1] IN
             fails' = fails \cup {<<x[1], pos + 1>> : x \in FailedAt(n, U'[n], Ui'[n], Ht'[n])}
          /\ phase' = phase
TDone == /\ phase = "solve" /\ pos = Len(cfg.ords)
         /\ \A f \in fails : PrintT(<<"FAIL", R.sid, f[1], f[2]>>)
         /\ PrintT(<<"DONE", R.sid, Cardinality(fails)>>)
         /\ PrintT(<<"CLASS", R.sid, IF KeptDegenerate(cfg) THEN "kept_degenerate" ELSE "kept_nondegenerate">>)
         /\ phase' = "done" /\ UNCHANGED <<simvars, fails>>
TIllPosed == /\ phase = "solve" /\ pos = 0 /\ ~cfg.wp
             /\ PrintT(<<"ILLPOSED", R.sid>>)
             /\ phase' = "done" /\ UNCHANGED <<simvars, fails>>
TNext == TSolve \/ TDone \/ TIllPosed
TraceWellFormed == R.ordsLogged = cfg.ords /\ InputOKSim(cfg)
=============================================================================
