INIT EInit
NEXT ENext
INVARIANT Emit
CHECK_DEADLOCK FALSE
